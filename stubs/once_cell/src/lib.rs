//! Contract stub of once_cell for single-threaded verification:
//! `Lazy` runs its initialiser exactly once, before the first dereference.
pub mod sync {
    use core::cell::{Cell, UnsafeCell};
    pub struct Lazy<T, F = fn() -> T> { val: UnsafeCell<Option<T>>, init: Cell<Option<F>> }
    unsafe impl<T: Sync + Send, F: Send> Sync for Lazy<T, F> {}
    impl<T, F> Lazy<T, F> {
        pub const fn new(f: F) -> Self { Lazy { val: UnsafeCell::new(None), init: Cell::new(Some(f)) } }
    }
    impl<T, F: FnOnce() -> T> Lazy<T, F> {
        pub fn force(this: &Self) -> &T {
            unsafe {
                if (*this.val.get()).is_none() {
                    let f = this.init.take().expect("Lazy instance has previously been poisoned");
                    *this.val.get() = Some(f());
                }
                (*this.val.get()).as_ref().unwrap()
            }
        }
    }
    impl<T, F: FnOnce() -> T> core::ops::Deref for Lazy<T, F> {
        type Target = T;
        fn deref(&self) -> &T { Lazy::force(self) }
    }
}
