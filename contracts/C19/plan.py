PLAN = dict(
    id="C19", api_files=['tracing-core/src/metadata.rs'],
    level="proof",
    explanation=(
        "Every comparison operator between Level/LevelFilter values, the conversions, the MAX_LEVEL set/read round trip and "
        "Display->FromStr are checked by loop-free (or fully unwound, unwinding assertions on) Kani harnesses that run the real "
        "tracing-core code over the complete finite domain (5 levels x 6 filters) - complete proofs, class P. FromStr on arbitrary "
        "text is a bounded stand-in (class B: every ASCII string of length <= 6), never counted as proved."),
    kani=[dict(
        crate="tracing-core", tls_shim=True, once_cell_stub=True,
        modules=[dict(name="__verif_c19", attach="lib", files=["../common/core_prelude.rs", "levels.kani.rs"])],
    )],
    functions_under_contract=[
        "tracing-core/src/metadata.rs: PartialEq/PartialOrd/Ord impls for Level, LevelFilter and the mixed pairs (all of eq ne lt le gt ge partial_cmp cmp, min/max)",
        "LevelFilter::from_level, into_level, From<Level>, From<Option<Level>>, Into<Option<Level>>",
        "LevelFilter::set_max / LevelFilter::current",
        "Display for Level / LevelFilter, Level::as_str, FromStr for Level / LevelFilter",
    ],
    trusted_base=[
        "Kani 0.68 / CBMC 6.11 / CaDiCaL; Kani's std (nightly-2026-08-21) rather than the repo toolchain's",
        "machine integers are bit-precise (CBMC), no mathematical-integer abstraction",
    ],
    assumptions=[
        "MAX_LEVEL atomics are exercised sequentially (Kani has one thread); cross-thread visibility of set_max is not decided",
        "non-ASCII input to FromStr and ASCII strings longer than 6 bytes are outside the bounded stand-in",
    ],
    not_covered=["tracing::level_filters STATIC_MAX_LEVEL feature table (compile-time)", "tracing-subscriber filter::LevelFilter re-export (same type)"],
    manifest=dict(
        technique="Kani loop-free full-domain harnesses on the real tracing-core (overlay), bounded stand-in for FromStr text",
        text=("Proof for the finite part: all 11x11 operator tables (eq ne lt le gt ge partial_cmp cmp min max), conversions, "
              "'level enabled by filter <=> level <= filter', MAX_LEVEL set/read round trip and Display->FromStr are decided for every "
              "value by Kani on the real code (class P, complete domain, unwinding assertions on). 'Anything else is rejected' by FromStr is a "
              "bounded stand-in (all ASCII strings <= 6 bytes), reported separately and never counted as proved."),
        note=("Trusted: Kani/CBMC/CaDiCaL, Kani's std build, the cfg(kani) thread_local!/once_cell shims (not exercised by these harnesses "
              "beyond compilation). Sequential only: cross-thread visibility of MAX_LEVEL is not decided. Known finding F8: \"\" parses as ERROR."),
        design_ref="DESIGN.md section 4, C19"),
)
