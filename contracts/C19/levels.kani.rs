// C19 — levels and level filters form one consistent total order; text round-trips.
// Spec: rank OFF=0 < ERROR=1 < WARN=2 < INFO=3 < DEBUG=4 < TRACE=5 (drawn as the integer k;
// `level_of`/`filter_of` build the value from the public constants).
use core::cmp::Ordering as O;

macro_rules! ops_table {
    ($a:expr, $ra:expr, $b:expr, $rb:expr) => {{
        assert!(($a == $b) == ($ra == $rb), "C19.eq");
        assert!(($a != $b) == ($ra != $rb), "C19.ne");
        assert!(($a <  $b) == ($ra <  $rb), "C19.lt");
        assert!(($a <= $b) == ($ra <= $rb), "C19.le");
        assert!(($a >  $b) == ($ra >  $rb), "C19.gt");
        assert!(($a >= $b) == ($ra >= $rb), "C19.ge");
        assert!($a.partial_cmp(&$b) == Some($ra.cmp(&$rb)), "C19.partial_cmp");
    }};
}

#[kani::proof]
fn c19_level_level_ops() {
    let (a, ra) = any_level(); let (b, rb) = any_level();
    ops_table!(a, ra, b, rb);
    assert!(a.cmp(&b) == ra.cmp(&rb), "C19.cmp");
    assert!(core::cmp::max(a, b) == level_of(core::cmp::max(ra, rb)), "C19.max");
    assert!(core::cmp::min(a, b) == level_of(core::cmp::min(ra, rb)), "C19.min");
}
#[kani::proof]
fn c19_filter_filter_ops() {
    let (a, ra) = any_filter(); let (b, rb) = any_filter();
    ops_table!(a, ra, b, rb);
    assert!(a.cmp(&b) == ra.cmp(&rb), "C19.cmp");
    assert!(core::cmp::max(a, b) == filter_of(core::cmp::max(ra, rb)), "C19.max");
    assert!(core::cmp::min(a, b) == filter_of(core::cmp::min(ra, rb)), "C19.min");
}
#[kani::proof]
fn c19_level_filter_ops() {
    let (a, ra) = any_level(); let (b, rb) = any_filter();
    ops_table!(a, ra, b, rb);
}
#[kani::proof]
fn c19_filter_level_ops() {
    let (a, ra) = any_filter(); let (b, rb) = any_level();
    ops_table!(a, ra, b, rb);
}
#[kani::proof]
fn c19_conversions() {
    let (l, rl) = any_level();
    let (f, rf) = any_filter();
    assert!(LevelFilter::from_level(l) == filter_of(rl), "C19.from_level");
    assert!(LevelFilter::from(l) == filter_of(rl), "C19.From<Level>");
    assert!(LevelFilter::from(Some(l)) == filter_of(rl), "C19.From<Option<Level>>.some");
    assert!(LevelFilter::from(None::<Level>) == LevelFilter::OFF, "C19.From<Option<Level>>.none");
    let back: Option<Level> = f.into_level();
    assert!(back.is_none() == (rf == 0), "C19.into_level.none_iff_off");
    if let Some(b) = back { assert!(b == level_of(rf), "C19.into_level.value"); }
    let back2: Option<Level> = f.into();
    assert!(back2 == back, "C19.Into<Option<Level>>");
    // `level enabled by filter` means level <= filter
    assert!((l <= f) == (rl <= rf), "C19.enabled_by_filter");
    // rank is injective on the constants
    let (l2, rl2) = any_level();
    assert!((l == l2) == (rl == rl2), "C19.level_injective");
}
#[kani::proof]
fn c19_set_max_roundtrip() {
    // from an arbitrary previously published value
    let (f0, _) = any_filter();
    LevelFilter::set_max(f0);
    let (f, rf) = any_filter();
    LevelFilter::set_max(f);
    assert!(LevelFilter::current() == f, "C19.set_max.current_reads_back");
    assert!(LevelFilter::current() == filter_of(rf), "C19.set_max.rank");
}

// ---- Display then FromStr gives the value back (all 11 values; f.pad executed) ----
struct Buf { b: [u8; 8], n: usize }
impl core::fmt::Write for Buf {
    fn write_str(&mut self, s: &str) -> core::fmt::Result {
        let mut i = 0;
        let bs = s.as_bytes();
        while i < bs.len() { if self.n >= 8 { return Err(core::fmt::Error); } self.b[self.n] = bs[i]; self.n += 1; i += 1; }
        Ok(())
    }
}
#[kani::proof]
#[kani::unwind(10)]
fn c19_display_parse_level() {
    use core::fmt::Write;
    let (l, rl) = any_level();
    let mut b = Buf { b: [0; 8], n: 0 };
    write!(b, "{}", l).unwrap();
    let s = core::str::from_utf8(&b.b[..b.n]).unwrap();
    let p: Result<Level, _> = s.parse();
    assert!(p.is_ok(), "C19.display_parse.level.ok");
    assert!(p.unwrap() == level_of(rl), "C19.display_parse.level.same");
    assert!(s == l.as_str(), "C19.display_eq_as_str");
}
#[kani::proof]
#[kani::unwind(10)]
fn c19_display_parse_filter() {
    use core::fmt::Write;
    let (f, rf) = any_filter();
    let mut b = Buf { b: [0; 8], n: 0 };
    write!(b, "{}", f).unwrap();
    let s = core::str::from_utf8(&b.b[..b.n]).unwrap();
    let p: Result<LevelFilter, _> = s.parse();
    assert!(p.is_ok(), "C19.display_parse.filter.ok");
    assert!(p.unwrap() == filter_of(rf), "C19.display_parse.filter.same");
}

// ---- FromStr on every ASCII string of length <= N (bounded stand-in, N stated) ----
const N: usize = 6;
fn lower(c: u8) -> u8 { if c >= b'A' && c <= b'Z' { c + 32 } else { c } }
fn is_name(b: &[u8; N], n: usize, name: &[u8]) -> bool {
    if n != name.len() { return false; }
    let mut i = 0;
    while i < n { if lower(b[i]) != name[i] { return false; } i += 1; }
    true
}
/// Oracle from the statement: names in any letter case, or a decimal numeral (optional '+',
/// leading zeros) whose value is a documented digit. Returns rank or 255 (= rejected).
fn oracle(b: &[u8; N], n: usize, lo: u8) -> u8 {
    if is_name(b, n, b"error") { return 1; }
    if is_name(b, n, b"warn") { return 2; }
    if is_name(b, n, b"info") { return 3; }
    if is_name(b, n, b"debug") { return 4; }
    if is_name(b, n, b"trace") { return 5; }
    if lo == 0 && is_name(b, n, b"off") { return 0; }
    // numeral
    let mut i = 0;
    if n > 0 && b[0] == b'+' { i = 1; }
    if i >= n { return 255; }
    let mut v: u32 = 0;
    while i < n {
        if b[i] < b'0' || b[i] > b'9' { return 255; }
        v = v * 10 + (b[i] - b'0') as u32;
        i += 1;
    }
    if v >= lo as u32 && v <= 5 { v as u8 } else { 255 }
}
fn any_ascii() -> ([u8; N], usize) {
    let b: [u8; N] = nd();
    let n: usize = nd();
    kani::assume(n <= N);
    let mut i = 0;
    while i < N { kani::assume(b[i] < 128); i += 1; }
    (b, n)
}
// BOUND: every ASCII string of length <= 6 bytes (all 128^n byte choices, n symbolic)
#[kani::proof]
#[kani::unwind(9)]
fn c19_fromstr_level_bounded() {
    let (b, n) = any_ascii();
    let s = unsafe { core::str::from_utf8_unchecked(&b[..n]) };
    let want = oracle(&b, n, 1);
    match s.parse::<Level>() {
        Ok(l) => { assert!(want != 255, "C19.fromstr.level.rejects_everything_else"); assert!(l == level_of(want), "C19.fromstr.level.value"); }
        Err(_) => assert!(want == 255, "C19.fromstr.level.accepts_names_and_digits"),
    }
}
// BOUND: every non-empty ASCII string of length <= 6 bytes
#[kani::proof]
#[kani::unwind(9)]
fn c19_fromstr_filter_bounded_except_known() {
    let (b, n) = any_ascii();
    kani::assume(n != 0); // the empty string is known finding F8, checked by ..._known
    let s = unsafe { core::str::from_utf8_unchecked(&b[..n]) };
    let want = oracle(&b, n, 0);
    match s.parse::<LevelFilter>() {
        Ok(f) => { assert!(want != 255, "C19.fromstr.filter.rejects_everything_else"); assert!(f == filter_of(want), "C19.fromstr.filter.value"); }
        Err(_) => assert!(want == 255, "C19.fromstr.filter.accepts_names_and_digits"),
    }
}
#[kani::proof]
#[kani::unwind(9)]
fn c19_fromstr_filter_empty_known() {
    assert!("".parse::<LevelFilter>().is_err(), "C19.fromstr.filter.empty_rejected");
}
