// C12 — reload handles (sequential part). Appended to tracing-subscriber/src/reload.rs.
vstatic!(REBUILDS: VAtomicUsize = VAtomicUsize::new(0));
vstatic!(LOCK_PTR: VAtomicUsize = VAtomicUsize::new(0));
vstatic!(LOCK_WAS_FREE: VAtomicUsize = VAtomicUsize::new(0));
vstatic!(SEEN_AT_REBUILD: VAtomicUsize = VAtomicUsize::new(99));
/// recording stand-in for tracing_core::callsite::rebuild_interest_cache (the real one is under contract in C01):
/// notes that it ran, whether the reload lock was free at that moment and which value a reader sees
fn rebuild_stub() {
    REBUILDS.fetch_add(1, VSeq);
    let p = LOCK_PTR.load(VSeq) as *const RwLock<VLevelFilter>;
    if !p.is_null() {
        let l = unsafe { &*p };
        match l.try_write() { Ok(_g) => { LOCK_WAS_FREE.store(1, VSeq); } Err(_) => { LOCK_WAS_FREE.store(0, VSeq); } }
        if let Ok(g) = l.try_read() { SEEN_AT_REBUILD.store(vrank(Some(*g)) as usize, VSeq); }
    }
}
// Handle::modify finally republishes the maximum level to the `log` crate.  log::set_max_level is replaced by a recording
// stand-in: the real one WRITES log's private `MAX_LOG_LEVEL_FILTER` (eight zero bytes at start), to which Kani 0.68
// aliases the constants Level::TRACE / LevelFilter::TRACE (DESIGN.md 0a) - every later use of those constants would
// read the log level instead.
vstatic!(LOG_MAX_CALLS: VAtomicUsize = VAtomicUsize::new(0));
vstatic!(LOG_MAX_AFTER_REBUILDS: VAtomicUsize = VAtomicUsize::new(99));
fn set_max_level_stub(_l: tracing_log::log::LevelFilter) { LOG_MAX_CALLS.fetch_add(1, VSeq); LOG_MAX_AFTER_REBUILDS.store(REBUILDS.load(VSeq), VSeq); }
fn any_filter() -> (VLevelFilter, u8) { let k: u8 = nd(); kani::assume(k <= 5); (vfilter_of(k).unwrap(), k) }

#[kani::proof]
#[kani::unwind(4)]
#[kani::stub(core::fmt::Formatter::pad, pad_stub)]
#[kani::stub(tracing_core::callsite::rebuild_interest_cache, rebuild_stub)]
#[kani::stub(tracing_log::log::set_max_level, set_max_level_stub)]
fn c12_gone_handle_reports_error_and_does_nothing() {
    let (old, _) = any_filter(); let (new, _) = any_filter();
    let (layer, handle) = Subscriber::new(old);
    drop(layer);
    let mut ran = false;
    let r = handle.modify(|v| { ran = true; *v = new; });
    assert!(r.is_err() && r.unwrap_err().is_dropped(), "C12.modify.collector_gone_is_an_error");
    assert!(!ran && REBUILDS.load(VSeq) == 0 && LOG_MAX_CALLS.load(VSeq) == 0, "C12.modify.collector_gone_has_no_effect");
    assert!(handle.reload(new).is_err() && handle.clone_current().is_none() && handle.with_current(|_| ()).is_err(), "C12.handle.every_operation_errors_once_gone");
}

#[kani::proof]
#[kani::unwind(4)]
#[kani::stub(core::fmt::Formatter::pad, pad_stub)]
#[kani::stub(tracing_core::callsite::rebuild_interest_cache, rebuild_stub)]
#[kani::stub(tracing_log::log::set_max_level, set_max_level_stub)]
fn c12_modify_mutates_once_unlocks_then_rebuilds_once() {
    let (old, _) = any_filter(); let (new, rnew) = any_filter();
    let (layer, handle) = Subscriber::new(old);
    LOCK_PTR.store(Arc::as_ptr(&layer.inner) as usize, VSeq);
    let via_reload: bool = nd();
    let mut runs = 0u8;
    let r = if via_reload { handle.reload(new) } else { handle.modify(|v| { runs += 1; *v = new; }) };
    assert!(r.is_ok(), "C12.modify.ok_while_the_layer_lives");
    assert!(via_reload || runs == 1, "C12.modify.closure_runs_exactly_once");
    assert!(REBUILDS.load(VSeq) == 1, "C12.modify.rebuilds_the_interest_cache_exactly_once");
    assert!(LOG_MAX_CALLS.load(VSeq) == 1 && LOG_MAX_AFTER_REBUILDS.load(VSeq) == 1, "C12.modify.log_max_level_republished_once_AFTER_the_rebuild");
    assert!(LOCK_WAS_FREE.load(VSeq) == 1, "C12.modify.lock_released_before_the_rebuild");
    assert!(SEEN_AT_REBUILD.load(VSeq) == rnew as usize, "C12.modify.rebuild_already_sees_the_new_value");
    // every later callback of the layer reads the new value (read lock per callback)
    assert!(vrank(crate::Subscribe::<VRoot>::max_level_hint(&layer)) == rnew, "C12.after_reload.hint_is_the_new_values");
    let lvl: u8 = nd(); kani::assume(lvl >= 1 && lvl <= 5);
    let i = crate::Subscribe::<VRoot>::register_callsite(&layer, vmeta_of(lvl));
    assert!(i.is_always() == (lvl <= rnew) && i.is_never() == (lvl > rnew), "C12.after_reload.callsite_interest_is_the_new_values");
    let root = VRoot::empty();
    assert!(crate::Subscribe::<VRoot>::enabled(&layer, vmeta_of(lvl), subscribe::Context::__verif_new(&root)) == (lvl <= rnew), "C12.after_reload.dynamic_verdict_is_the_new_values");
    assert!(handle.clone_current() == Some(new), "C12.handle.clone_current_is_the_new_value");
}

// the same for a reloadable per-layer FILTER
#[kani::proof]
#[kani::unwind(4)]
#[kani::stub(core::fmt::Formatter::pad, pad_stub)]
#[kani::stub(tracing_core::callsite::rebuild_interest_cache, rebuild_stub)]
#[kani::stub(tracing_log::log::set_max_level, set_max_level_stub)]
fn c12_reloaded_filter_is_read_by_every_callback() {
    let old = VFil::any(); let new = VFil::any();
    let (fil, handle) = Subscriber::new(old);
    assert!(handle.reload(new).is_ok() && REBUILDS.load(VSeq) == 1, "C12.filter.reload_ok_and_rebuilds");
    let root = VRoot::empty(); let cx = subscribe::Context::__verif_new(&root);
    let vs = VMETA.fields().value_set(&[]); let ev = Event::new(&VMETA, &vs);
    assert!(subscribe::Filter::<VRoot>::enabled(&fil, &VMETA, &cx) == new.enabled, "C12.filter.enabled_is_new");
    assert!(subscribe::Filter::<VRoot>::event_enabled(&fil, &ev, &cx) == new.ev_enabled, "C12.filter.event_enabled_is_new");
    assert!(vicode(&subscribe::Filter::<VRoot>::callsite_enabled(&fil, &VMETA)) == new.interest, "C12.filter.callsite_enabled_is_new");
    assert!(vrank(subscribe::Filter::<VRoot>::max_level_hint(&fil)) == new.hint, "C12.filter.hint_is_new");
}

// the same for a reloadable LAYER whose static interest, dynamic verdict and hint are independent of one another
// (a LevelFilter answers all three from one number, so a callback that is derived from another one instead of being
// forwarded would go unnoticed with it)
#[kani::proof]
#[kani::unwind(4)]
#[kani::stub(core::fmt::Formatter::pad, pad_stub)]
#[kani::stub(tracing_core::callsite::rebuild_interest_cache, rebuild_stub)]
#[kani::stub(tracing_log::log::set_max_level, set_max_level_stub)]
fn c12_reloaded_layer_is_read_by_every_callback() {
    let mk = |i: usize| { let r = VRec { i, global_enabled: nd(), interest: nd(), hint: nd() }; kani::assume(r.interest <= 2 && r.hint <= 6); r };
    let old = mk(0); let new = mk(1);
    let (ne, ni, nh) = (new.global_enabled, new.interest, new.hint);
    let (layer, handle) = Subscriber::new(old);
    assert!(handle.reload(new).is_ok() && REBUILDS.load(VSeq) == 1, "C12.layer.reload_ok_and_rebuilds");
    let root = VRoot::empty();
    assert!(vicode(&crate::Subscribe::<VRoot>::register_callsite(&layer, &VMETA)) == ni, "C12.layer.register_callsite_is_the_new_values_own_answer");
    assert!(crate::Subscribe::<VRoot>::enabled(&layer, &VMETA, subscribe::Context::__verif_new(&root)) == ne, "C12.layer.enabled_is_the_new_values_own_answer");
    assert!(vrank(crate::Subscribe::<VRoot>::max_level_hint(&layer)) == nh, "C12.layer.hint_is_the_new_values_own_answer");
    assert!(vseen(1, VK_REGISTER) == 1 && vseen(1, VK_ENABLED) == 1 && vseen(0, VK_REGISTER) == 0 && vseen(0, VK_ENABLED) == 0, "C12.layer.each_callback_reaches_the_NEW_value_once_and_the_old_one_never");
    let vs = VMETA.fields().value_set(&[]); let ev = Event::new(&VMETA, &vs);
    crate::Subscribe::<VRoot>::on_event(&layer, &ev, subscribe::Context::__verif_new(&root));
    assert!(vseen(1, VK_EVENT) == 1 && vseen(0, VK_EVENT) == 0, "C12.layer.events_reach_the_new_value_only");
}

// span-lifecycle callbacks of a reloadable per-layer FILTER (stateful filters such as EnvFilter's span directives live
// on them) are forwarded to the CURRENT value, each to its namesake, exactly once
vstatic!(FCALLS: [VAtomicUsize; 5] = [VAtomicUsize::new(0), VAtomicUsize::new(0), VAtomicUsize::new(0), VAtomicUsize::new(0), VAtomicUsize::new(0)]);
#[derive(Clone, Copy)]
struct VFilRec { gen: usize }
impl subscribe::Filter<VRoot> for VFilRec {
    fn enabled(&self, _: &Metadata<'_>, _: &subscribe::Context<'_, VRoot>) -> bool { true }
    fn on_new_span(&self, _: &span::Attributes<'_>, _: &span::Id, _: subscribe::Context<'_, VRoot>) { if self.gen == 1 { FCALLS[0].fetch_add(1, VSeq); } else { FCALLS[0].fetch_add(100, VSeq); } }
    fn on_enter(&self, _: &span::Id, _: subscribe::Context<'_, VRoot>) { if self.gen == 1 { FCALLS[1].fetch_add(1, VSeq); } else { FCALLS[1].fetch_add(100, VSeq); } }
    fn on_exit(&self, _: &span::Id, _: subscribe::Context<'_, VRoot>) { if self.gen == 1 { FCALLS[2].fetch_add(1, VSeq); } else { FCALLS[2].fetch_add(100, VSeq); } }
    fn on_close(&self, _: span::Id, _: subscribe::Context<'_, VRoot>) { if self.gen == 1 { FCALLS[3].fetch_add(1, VSeq); } else { FCALLS[3].fetch_add(100, VSeq); } }
    fn on_record(&self, _: &span::Id, _: &span::Record<'_>, _: subscribe::Context<'_, VRoot>) { if self.gen == 1 { FCALLS[4].fetch_add(1, VSeq); } else { FCALLS[4].fetch_add(100, VSeq); } }
}
#[kani::proof]
#[kani::unwind(7)]
#[kani::stub(core::fmt::Formatter::pad, pad_stub)]
#[kani::stub(tracing_core::callsite::rebuild_interest_cache, rebuild_stub)]
#[kani::stub(tracing_log::log::set_max_level, set_max_level_stub)]
fn c12_reloaded_filter_gets_every_span_lifecycle_callback_under_its_own_name() {
    let (fil, handle) = Subscriber::new(VFilRec { gen: 0 });
    assert!(handle.reload(VFilRec { gen: 1 }).is_ok(), "C12.filter.lifecycle.reload_ok");
    let root = VRoot::empty();
    let id = span::Id::from_u64(1);
    let vs = VMETA_SPAN.fields().value_set(&[]);
    let which: usize = nd(); kani::assume(which < 5);
    match which {
        0 => { let a = span::Attributes::new(&VMETA_SPAN, &vs); subscribe::Filter::<VRoot>::on_new_span(&fil, &a, &id, subscribe::Context::__verif_new(&root)) }
        1 => subscribe::Filter::<VRoot>::on_enter(&fil, &id, subscribe::Context::__verif_new(&root)),
        2 => subscribe::Filter::<VRoot>::on_exit(&fil, &id, subscribe::Context::__verif_new(&root)),
        3 => subscribe::Filter::<VRoot>::on_close(&fil, id.clone(), subscribe::Context::__verif_new(&root)),
        _ => subscribe::Filter::<VRoot>::on_record(&fil, &id, &span::Record::new(&vs), subscribe::Context::__verif_new(&root)),
    }
    let mut i = 0;
    while i < 5 { assert!(FCALLS[i].load(VSeq) == (i == which) as usize, "C12.filter.lifecycle.exactly_the_namesake_callback_of_the_NEW_value_runs_once"); i += 1; }
}

// and the span-lifecycle callbacks of a reloadable LAYER: each reaches exactly its namesake of the NEW value once
#[kani::proof]
#[kani::unwind(12)]
#[kani::stub(core::fmt::Formatter::pad, pad_stub)]
#[kani::stub(tracing_core::callsite::rebuild_interest_cache, rebuild_stub)]
#[kani::stub(tracing_log::log::set_max_level, set_max_level_stub)]
fn c12_reloaded_layer_gets_every_span_lifecycle_callback_under_its_own_name() {
    let (layer, handle) = Subscriber::new(VRec::plain(0));
    assert!(handle.reload(VRec::plain(1)).is_ok(), "C12.layer.lifecycle.reload_ok");
    let root = VRoot::empty();
    let id = span::Id::from_u64(1); let id2 = span::Id::from_u64(2);
    let vs = VMETA_SPAN.fields().value_set(&[]);
    let which: usize = nd(); kani::assume(which < 7);
    let kind = match which {
        0 => { let a = span::Attributes::new(&VMETA_SPAN, &vs); crate::Subscribe::<VRoot>::on_new_span(&layer, &a, &id, subscribe::Context::__verif_new(&root)); VK_NEW_SPAN }
        1 => { crate::Subscribe::<VRoot>::on_record(&layer, &id, &span::Record::new(&vs), subscribe::Context::__verif_new(&root)); VK_RECORD }
        2 => { crate::Subscribe::<VRoot>::on_follows_from(&layer, &id, &id2, subscribe::Context::__verif_new(&root)); VK_FOLLOWS }
        3 => { crate::Subscribe::<VRoot>::on_enter(&layer, &id, subscribe::Context::__verif_new(&root)); VK_ENTER }
        4 => { crate::Subscribe::<VRoot>::on_exit(&layer, &id, subscribe::Context::__verif_new(&root)); VK_EXIT }
        5 => { crate::Subscribe::<VRoot>::on_close(&layer, id.clone(), subscribe::Context::__verif_new(&root)); VK_CLOSE }
        _ => { crate::Subscribe::<VRoot>::on_id_change(&layer, &id, &id2, subscribe::Context::__verif_new(&root)); VK_IDCHANGE }
    };
    let mut k = 0;
    while k < 10 {
        assert!(vseen(1, k) == (k == kind) as usize, "C12.layer.lifecycle.exactly_the_namesake_callback_of_the_NEW_value_runs_once");
        assert!(vseen(0, k) == 0, "C12.layer.lifecycle.the_old_value_is_never_called");
        k += 1;
    }
}
