import importlib.util, os
_p = os.path.join(os.path.dirname(os.path.dirname(os.path.abspath(__file__))), "C07", "plan.py")
_s = importlib.util.spec_from_file_location("plan_C07_for_C12", _p); _m = importlib.util.module_from_spec(_s); _s.loader.exec_module(_m)
_p1 = os.path.join(os.path.dirname(os.path.dirname(os.path.abspath(__file__))), "C01", "plan.py")
_s1 = importlib.util.spec_from_file_location("plan_C01_for_C12", _p1); _m1 = importlib.util.module_from_spec(_s1); _s1.loader.exec_module(_m1)
PLAN = dict(
    id="C12", api_files=['tracing-subscriber/src/reload.rs'], level="other", explanation="Handle::modify / reload: a handle whose layer is gone returns the CollectorGone error, runs nothing and rebuilds nothing; otherwise the closure runs exactly once under the write lock, the lock is RELEASED before callsite::rebuild_interest_cache is called, that function is called exactly once and already sees the new value; afterwards every callback of the reloadable layer / filter (max_level_hint, register_callsite, enabled, event_enabled, callsite_enabled, on_event) is FORWARDED to the new value - each reaches it exactly once and the old value never, for layers whose static interest, dynamic verdict and hint are independent - for all old/new values; the log crate's max level is republished once, after the rebuild. rebuild_interest_cache itself is replaced by a recording stub here; its contract (re-establishes the cache invariant from arbitrary cached bytes) is C01's. Interleavings with emissions on other threads are not decided. Added after seed C12-3: the span-lifecycle callbacks of a reloadable per-layer filter reach exactly their namesake of the NEW value once.",
    functions_under_contract=['tracing-core/src/callsite.rs: inner::rebuild_interest (the two C01 harnesses on it, bounded: 2 registrars, one callsite, every old max level) - every registered callsite re-evaluated whatever the old max level, max level of the live collectors published', 'reload.rs: impl Filter for reload::Subscriber - on_new_span / on_enter / on_exit / on_close / on_record each forwarded to its namesake of the current value', 'tracing-subscriber/src/reload.rs: Handle::{modify,reload,clone_current,with_current}, impl Subscribe / Filter for reload::Subscriber (read lock per callback)'],
    trusted_base=['tracing_log::log::set_max_level replaced by a recording stub (called once, after the rebuild): the real one writes a static that Kani 0.68 aliases with the constant LevelFilter::TRACE', "Kani 0.68 / CBMC 6.11 / CaDiCaL; Kani's std build (nightly-2026-08-21), not the repo toolchain's", 'core::fmt::Formatter::pad stubbed to Ok(()) with -Z stubbing (panic-message formatting on infeasible error branches; no harness that uses it reads formatted text)', 'cfg(kani) thread_local! shim and once_cell::sync::Lazy contract stub (see overlay_additions)', 'tracing_core::callsite::rebuild_interest_cache stubbed by a recording function (its contract is discharged under C01)'],
    assumptions=['RwLock exclusion: a callback evaluates entirely under one read guard, hence entirely old or entirely new (std)', "composition with C01 (its two rebuild_interest harnesses are run by this check too; the rest of C01 - the macro guard reading the cache - is C01's): after rebuild_interest the cached interest of every registered callsite and MAX_LEVEL are those of the live collectors' CURRENT answers"],
    not_covered=['an emission racing with the reload (interleavings)', 'end-to-end run through the real global registry (too expensive for CBMC, see C01)'],
    kani=[dict(
        crate="tracing-subscriber", tls_shim_crates=["tracing-core", "tracing-subscriber"], once_cell_stub=True,
        modules=[dict(name="__verif_c12", attach="inline", file="tracing-subscriber/src/reload.rs", modpath="reload",
                      files=["../common/sub_prelude.rs", "reload.kani.rs"])],
        append=_m.SUB_APPENDS,
    ), dict(
        # the rebuild contract C12 composes with (C01's harnesses on the real tracing-core rebuild_interest, run here too so
        # that this check does not rest on another property's check having been run): every registered callsite is
        # re-evaluated whatever the OLD max level was, and the max level of the live collectors is published
        crate="tracing-core", tls_shim=True, once_cell_stub=True, tag="core-rebuild",
        only_harnesses=["c01_rebuild_interest_reevaluates_the_callsite_whatever_the_old_max_level_bounded",
                        "c01_rebuild_interest_prunes_and_publishes_max_level_bounded"],
        modules=[dict(name="__verif_c01", attach="inline", file="tracing-core/src/callsite.rs", inside_mod="inner",
                      modpath="callsite::inner", files=["../common/core_prelude.rs", "../common/core_stub.rs", "../C01/core_cache.kani.rs"])],
        append=[dict(file="tracing-core/src/dispatch.rs", text=_m1.DISPATCH_HELPER, kind="cfg(kani) constructor helper"),
                dict(file="tracing-core/src/callsite.rs", text=_m1.REG_HELPER, kind="cfg(kani) accessor helper")],
    )],
    manifest=dict(technique="ordering/value contracts of Handle::modify on the real reload.rs with the cache rebuild stubbed by a recorder (Kani, loop-free), composed with C01's rebuild contract",
        text="Sequential part only: gone-handle error, mutate-once / unlock-before-rebuild / rebuild-once ordering, and new-value visibility to every callback are proved for all values; 'every thread' and racing emissions rest on RwLock exclusion and C01's cache contract (assumed composition), hence `other`.",
        note='Trusted: Kani/CBMC, stubs. Assumed: RwLock semantics, composition with C01. Interleavings not decided.',
        design_ref="DESIGN.md section 4, C12"),
)
