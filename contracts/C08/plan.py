import importlib.util, os
_p = os.path.join(os.path.dirname(os.path.dirname(os.path.abspath(__file__))), "C07", "plan.py")
_s = importlib.util.spec_from_file_location("plan_C07_for_C08", _p); _m = importlib.util.module_from_spec(_s); _s.loader.exec_module(_m)
LAY = "tracing-subscriber/src/subscribe/layered.rs"
PLAN = dict(
    id="C08", level="proof", explanation="x",
    kani=[dict(
        crate="tracing-subscriber", tls_shim_crates=["tracing-core", "tracing-subscriber"], once_cell_stub=True,
        modules=[dict(name="__verif_c08", attach="inline", file=LAY, modpath="subscribe::layered",
                      files=["../common/sub_prelude.rs", "summaries.kani.rs"])],
        append=_m.SUB_APPENDS,
    )],
    manifest=dict(technique="x", text="x", note="x"),
)
