import importlib.util, os
_p = os.path.join(os.path.dirname(os.path.dirname(os.path.abspath(__file__))), "C07", "plan.py")
_s = importlib.util.spec_from_file_location("plan_C07_for_C08", _p); _m = importlib.util.module_from_spec(_s); _s.loader.exec_module(_m)
LAY = "tracing-subscriber/src/subscribe/layered.rs"
def build_structural(ex):
    return open(os.path.join(os.path.dirname(os.path.abspath(__file__)), "lemma_c08.verus.rs")).read()


PLAN = dict(
    id="C08", api_files=['tracing-subscriber/src/filter/subscriber_filters/combinator.rs', 'tracing-subscriber/src/subscribe/layered.rs'], level="proof", explanation="Soundness of summaries is shown to be preserved by every node given sound parts, so it holds for every expression/stack over the checked leaves by structural induction (mechanised in Verus for filter expressions of any depth: lemma_c08.verus.rs): And/Or/Not combinators with arbitrary sound part filters (symbolic interest, hint, dynamic verdicts; callsite of symbolic level); LevelFilter, FilterFn (+ with_max_level_hint), DynFilterFn leaves; Filtered's hint; the Layered flags equal their definitions for list nodes and tree nodes (F9, fixed); pick_interest over all flags x answers against 'never only if a global part said never / always only if all consulted parts said always'; pick_level_hint over all Option<LevelFilter>^2 x flags against a receive-semantics oracle with ghost (g, r) per side constrained by the induction hypothesis and the meaning of the flags - result is None or >= min(g_outer, g_inner, max(r_outer, r_inner)). The valuations of known finding F10 are split off (..._known); Vec summaries bounded (2 elements).",
    functions_under_contract=['subscribe/layered.rs: Layered::new (flags), pick_interest, pick_level_hint', 'filter/subscriber_filters/combinator.rs: And/Or/Not {enabled, callsite_enabled, max_level_hint, event_enabled}', 'filter/subscriber_filters/mod.rs: impl Filter for LevelFilter, Filtered::max_level_hint', 'filter/filter_fn.rs: FilterFn, DynFilterFn summaries', 'subscribe/mod.rs: Vec<S>::{register_callsite,max_level_hint}, and_then, with_collector'],
    trusted_base=["Kani 0.68 / CBMC 6.11 / CaDiCaL; Kani's std build (nightly-2026-08-21), not the repo toolchain's", 'core::fmt::Formatter::pad stubbed to Ok(()) with -Z stubbing (panic-message formatting on infeasible error branches; no harness that uses it reads formatted text)', 'Pool::clear stub'],
    assumptions=["the receive-semantics oracle (ghost g, r; need = min(g_o, g_i, max(r_o, r_i))) is my formalisation of 'what any of its layers would receive'; it is stated in DESIGN.md section 4 so it can be challenged", 'structural induction over And/Or/Not expressions is mechanised in Verus (lemma_c08.verus.rs) over the node formulas that Kani checks the real combinators against; for Layered stacks the induction over nodes is the stated meta-argument'],
    not_covered=['the EnvFilter leaf (regex, dynamic directives); the Targets leaf is bounded: two directives on one target, one of them naming a field (C11 covers the static directive order)', 'reload::Subscriber summaries (pass-through cells are C09)'],
    verus=[dict(name="structural", builder="build_structural", obligations=["structural", "statement"])],
    kani=[dict(
        crate="tracing-subscriber", tls_shim_crates=["tracing-core", "tracing-subscriber"], once_cell_stub=True,
        modules=[dict(name="__verif_c08", attach="inline", file=LAY, modpath="subscribe::layered",
                      files=["../common/sub_prelude.rs", "summaries.kani.rs"]),
                 dict(name="__verif_c08t", attach="inline", file="tracing-subscriber/src/filter/targets.rs", modpath="filter::targets",
                      files=["../common/sub_prelude.rs", "targets_leaf.kani.rs"])],
        append=_m.SUB_APPENDS,
    )],
    manifest=dict(technique='per-node preservation obligations on the real combinators and Layered::{new,pick_interest,pick_level_hint} with symbolic sound parts and a ghost receive-semantics oracle (Kani, loop-free)',
        text="Every combinator and stack node is proved, on the real code and for all part summaries and flags, to publish a summary that is sound whenever its parts' summaries are; hence soundness for every expression and stack over the checked leaves. Known finding F10 (mixed Vec) is reported separately; F9 (tree nodes under a Registry) was found and repaired.",
        note='Trusted: Kani/CBMC, stubs listed in evidence. Assumed: the oracle of DESIGN.md; leaves EnvFilter/Targets unchecked here. Bounded: Vec width 2.',
        design_ref="DESIGN.md section 4, C08"),
)
