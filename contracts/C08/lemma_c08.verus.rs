use vstd::prelude::*;
verus! {
// ---- C08 lemma layer (pure Verus): structural induction over filter expressions.
// A filter is summarised by (interest i in {0 never, 1 sometimes, 2 always}, hint h in 0..=5 or 6 = none) and decides a
// callsite of rank lvl, in a context ctx, by the pair (enabled, event_enabled). The node formulas below are the ones the
// Kani obligations c08_{and,or,not}_preserves_soundness check the REAL combinators against
// ("...summary_is_the_formula_of_the_structural_lemma", "...decision_is_conjunction/disjunction/negation").
struct Sum { i: int, h: int }
spec fn and_i(a: int, b: int) -> int { if a == 0 { 0 } else if b != 2 { b } else { a } }
spec fn and_h(a: int, b: int) -> int { if a == 6 || b == 6 { 6 } else if a <= b { a } else { b } }
spec fn or_i(a: int, b: int) -> int { if a == 2 || b == 2 { 2 } else if a == 1 || b == 1 { 1 } else { 0 } }
spec fn or_h(a: int, b: int) -> int { if a == 6 || b == 6 { 6 } else if a >= b { a } else { b } }
spec fn not_i(a: int) -> int { if a == 2 { 0 } else if a == 0 { 2 } else { 1 } }

enum Expr { Leaf(int), And(Box<Expr>, Box<Expr>), Or(Box<Expr>, Box<Expr>), Not(Box<Expr>) }

spec fn summ(e: Expr, leaf: spec_fn(int) -> Sum) -> Sum decreases e {
    match e {
        Expr::Leaf(k) => leaf(k),
        Expr::And(a, b) => Sum { i: and_i(summ(*a, leaf).i, summ(*b, leaf).i), h: and_h(summ(*a, leaf).h, summ(*b, leaf).h) },
        Expr::Or(a, b) => Sum { i: or_i(summ(*a, leaf).i, summ(*b, leaf).i), h: or_h(summ(*a, leaf).h, summ(*b, leaf).h) },
        Expr::Not(a) => Sum { i: not_i(summ(*a, leaf).i), h: 6 },
    }
}
// dynamic decision (enabled, event_enabled) in context ctx
spec fn en(e: Expr, len: spec_fn(int, int) -> bool, lev: spec_fn(int, int) -> bool, ctx: int) -> bool decreases e {
    match e { Expr::Leaf(k) => len(k, ctx), Expr::And(a, b) => en(*a, len, lev, ctx) && en(*b, len, lev, ctx),
              Expr::Or(a, b) => en(*a, len, lev, ctx) || en(*b, len, lev, ctx), Expr::Not(a) => !en(*a, len, lev, ctx) }
}
spec fn ev(e: Expr, len: spec_fn(int, int) -> bool, lev: spec_fn(int, int) -> bool, ctx: int) -> bool decreases e {
    match e { Expr::Leaf(k) => lev(k, ctx), Expr::And(a, b) => ev(*a, len, lev, ctx) && ev(*b, len, lev, ctx),
              Expr::Or(a, b) => ev(*a, len, lev, ctx) || ev(*b, len, lev, ctx), Expr::Not(a) => true }
}
spec fn wf(s: Sum) -> bool { 0 <= s.i <= 2 && 0 <= s.h <= 6 }
// soundness of a summary for a callsite of rank lvl, for EVERY context
spec fn sound_at(s: Sum, e_en: bool, e_ev: bool, lvl: int) -> bool {
    (s.i == 0 ==> !e_en) && (s.i == 2 ==> e_en && e_ev) && (s.h != 6 ==> (e_en ==> lvl <= s.h))
}

spec fn leaf_ok(leaf: spec_fn(int) -> Sum, len: spec_fn(int, int) -> bool, lev: spec_fn(int, int) -> bool, lvl: int, k: int, c: int) -> bool {
    wf(leaf(k)) && sound_at(leaf(k), len(k, c), lev(k, c), lvl)
}
spec fn leaves_sound(leaf: spec_fn(int) -> Sum, len: spec_fn(int, int) -> bool, lev: spec_fn(int, int) -> bool, lvl: int) -> bool {
    forall|k: int, c: int| #[trigger] leaf_ok(leaf, len, lev, lvl, k, c)
}
// every expression over sound leaves publishes a sound summary - any depth, any shape
proof fn structural(e: Expr, leaf: spec_fn(int) -> Sum, len: spec_fn(int, int) -> bool, lev: spec_fn(int, int) -> bool, lvl: int, ctx: int)
    requires leaves_sound(leaf, len, lev, lvl)
    ensures wf(summ(e, leaf)), sound_at(summ(e, leaf), en(e, len, lev, ctx), ev(e, len, lev, ctx), lvl)
    decreases e
{
    match e {
        Expr::Leaf(k) => { assert(leaf_ok(leaf, len, lev, lvl, k, ctx)); }
        Expr::And(a, b) => { structural(*a, leaf, len, lev, lvl, ctx); structural(*b, leaf, len, lev, lvl, ctx); }
        Expr::Or(a, b) => { structural(*a, leaf, len, lev, lvl, ctx); structural(*b, leaf, len, lev, lvl, ctx); }
        Expr::Not(a) => { structural(*a, leaf, len, lev, lvl, ctx); }
    }
}
// consequences in the statement's words: a published `never` means rejected in every context, a published hint below the
// callsite's level means the metadata check rejects in every context, a published `always` means accepted in every context
proof fn statement(e: Expr, leaf: spec_fn(int) -> Sum, len: spec_fn(int, int) -> bool, lev: spec_fn(int, int) -> bool, lvl: int, ctx: int)
    requires leaves_sound(leaf, len, lev, lvl)
    ensures
        summ(e, leaf).i == 0 ==> !(en(e, len, lev, ctx) && ev(e, len, lev, ctx)),
        summ(e, leaf).h != 6 && summ(e, leaf).h < lvl ==> !(en(e, len, lev, ctx) && ev(e, len, lev, ctx)),
        summ(e, leaf).i == 2 ==> en(e, len, lev, ctx) && ev(e, len, lev, ctx),
{
    structural(e, leaf, len, lev, lvl, ctx);
}
} // verus!
fn main() {}
