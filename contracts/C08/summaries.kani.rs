// C08 — static summaries (interest, max-level hint) are sound upper bounds. Appended to subscribe/layered.rs:
// Layered's private flags, pick_interest and pick_level_hint are the real ones.
use crate::filter::FilterExt as _;
use crate::subscribe::Filter;

/// soundness of a filter's summary w.r.t. one (arbitrary) dynamic outcome for a callsite of rank `lvl`:
///   never => the metadata check rejects;  always => both checks accept;
///   Some(h) => (the metadata check accepts => lvl <= h)   (levels are metadata: the hint bounds `enabled`; this form is
///   inductive through And/Or/Not - lemma_c08.verus.rs - whereas bounding only `enabled && event_enabled` is not through Or)
fn sound(interest: u8, hint: u8, en: bool, ev: bool, lvl: u8) -> bool {
    (interest != 0 || !en) && (interest != 2 || (en && ev)) && (hint == 6 || !en || lvl <= hint)
}
// the summary formulas the structural lemma (lemma_c08.verus.rs) is stated over; the real combinators must compute exactly these
fn and_i(a: u8, b: u8) -> u8 { if a == 0 { 0 } else if b != 2 { b } else { a } }
fn and_h(a: u8, b: u8) -> u8 { if a == 6 || b == 6 { 6 } else { core::cmp::min(a, b) } }
fn or_i(a: u8, b: u8) -> u8 { if a == 2 || b == 2 { 2 } else if a == 1 || b == 1 { 1 } else { 0 } }
fn or_h(a: u8, b: u8) -> u8 { if a == 6 || b == 6 { 6 } else { core::cmp::max(a, b) } }
fn not_i(a: u8) -> u8 { if a == 2 { 0 } else if a == 0 { 2 } else { 1 } }
fn sound_fil(f: &VFil, lvl: u8) -> bool { sound(f.interest, f.hint, f.enabled, f.ev_enabled, lvl) }
fn eval<F: Filter<VRoot>>(f: &F, lvl: u8) -> (u8, u8, bool, bool) {
    let root = VRoot::empty(); let cx = Context::__verif_new(&root);
    let m = vmeta_of(lvl);
    let vs = m.fields().value_set(&[]); let e = Event::new(m, &vs);
    (vicode(&f.callsite_enabled(m)), vrank(f.max_level_hint()), f.enabled(m, &cx), f.event_enabled(&e, &cx))
}
fn any_lvl() -> u8 { let l: u8 = nd(); kani::assume(l >= 1 && l <= 5); l }

#[kani::proof]
#[kani::unwind(4)]
#[kani::stub(core::fmt::Formatter::pad, pad_stub)]
fn c08_and_preserves_soundness() {
    let a = VFil::any(); let b = VFil::any(); let lvl = any_lvl();
    kani::assume(sound_fil(&a, lvl) && sound_fil(&b, lvl));
    let (i, h, en, ev) = eval(&a.and(b), lvl);
    assert!(en == (a.enabled && b.enabled) && ev == (a.ev_enabled && b.ev_enabled), "C08.And.decision_is_conjunction");
    assert!(sound(i, h, en, ev, lvl), "C08.And.summary_sound_given_sound_parts");
    assert!(i == and_i(a.interest, b.interest) && h == and_h(a.hint, b.hint), "C08.And.summary_is_the_formula_of_the_structural_lemma");
}
#[kani::proof]
#[kani::unwind(4)]
#[kani::stub(core::fmt::Formatter::pad, pad_stub)]
fn c08_or_preserves_soundness() {
    let a = VFil::any(); let b = VFil::any(); let lvl = any_lvl();
    kani::assume(sound_fil(&a, lvl) && sound_fil(&b, lvl));
    let (i, h, en, ev) = eval(&a.or(b), lvl);
    assert!(en == (a.enabled || b.enabled) && ev == (a.ev_enabled || b.ev_enabled), "C08.Or.decision_is_disjunction");
    assert!(sound(i, h, en, ev, lvl), "C08.Or.summary_sound_given_sound_parts");
    assert!(i == or_i(a.interest, b.interest) && h == or_h(a.hint, b.hint), "C08.Or.summary_is_the_formula_of_the_structural_lemma");
}
#[kani::proof]
#[kani::unwind(4)]
#[kani::stub(core::fmt::Formatter::pad, pad_stub)]
fn c08_not_preserves_soundness() {
    let a = VFil::any(); let lvl = any_lvl();
    kani::assume(sound_fil(&a, lvl));
    let (i, h, en, ev) = eval(&a.not(), lvl);
    assert!(en == !a.enabled, "C08.Not.decision_is_negation");
    assert!(sound(i, h, en, ev, lvl), "C08.Not.summary_sound_given_sound_part");
    assert!(i == not_i(a.interest) && h == 6 && ev, "C08.Not.summary_is_the_formula_of_the_structural_lemma");
}
#[kani::proof]
#[kani::unwind(4)]
#[kani::stub(core::fmt::Formatter::pad, pad_stub)]
fn c08_levelfilter_leaf_is_exact() {
    let k: u8 = nd(); kani::assume(k <= 5); let lvl = any_lvl();
    let f = vfilter_of(k).unwrap();
    let (i, h, en, ev) = eval(&f, lvl);
    assert!(en == (lvl <= k) && ev, "C08.LevelFilter.accepts_iff_level_le_filter");
    assert!(h == k, "C08.LevelFilter.hint_is_itself");
    assert!(sound(i, h, en, ev, lvl), "C08.LevelFilter.summary_sound");
    assert!(i == if lvl <= k { 2 } else { 0 }, "C08.LevelFilter.interest_exact");
}
#[kani::proof]
#[kani::unwind(4)]
#[kani::stub(core::fmt::Formatter::pad, pad_stub)]
fn c08_filter_fn_leaves() {
    use crate::filter::{filter_fn, dynamic_filter_fn};
    let verdict: bool = nd(); let lvl = any_lvl(); let k: u8 = nd(); kani::assume(k <= 5);
    // FilterFn: static interest derives from the closure itself
    let f = filter_fn(move |_m| verdict);
    let (i, h, en, ev) = eval(&f, lvl);
    assert!(en == verdict && ev && h == 6, "C08.FilterFn.decision_is_closure");
    assert!(sound(i, h, en, ev, lvl), "C08.FilterFn.summary_sound");
    // with a user-promised hint: the hint is taken as given and levels above it are rejected
    kani::assume(!verdict || lvl <= k);   // `with_max_level_hint` is a promise by the user that the closure accepts nothing above k
    let g = filter_fn(move |_m| verdict).with_max_level_hint(vfilter_of(k).unwrap());
    let (i, h, en, ev) = eval(&g, lvl);
    assert!(h == k, "C08.FilterFn.with_max_level_hint");
    assert!(sound(i, h, en, ev, lvl), "C08.FilterFn.summary_sound_with_hint");
    // DynFilterFn without a callsite filter must answer `sometimes`
    let d = dynamic_filter_fn(move |_m, _cx: &Context<'_, VRoot>| verdict);
    let (i, h, en, ev) = eval(&d, lvl);
    assert!(en == verdict && sound(i, h, en, ev, lvl), "C08.DynFilterFn.summary_sound");
}

// ---------- Filtered: the layer-level summary is the filter's
#[kani::proof]
#[kani::unwind(4)]
#[kani::stub(core::fmt::Formatter::pad, pad_stub)]
fn c08_filtered_hint_is_its_filters() {
    let f = VFil::any();
    let layer = crate::filter::Filtered::<VRec, VFil, VRoot>::new(VRec { i: 0, global_enabled: true, interest: nd(), hint: nd() }, f);
    assert!(vrank(Subscribe::<VRoot>::max_level_hint(&layer)) == f.hint, "C08.Filtered.max_level_hint_is_filters_hint");
}

// ---------- the flags of a Layered node equal their definitions
#[kani::proof]
#[kani::unwind(4)]
#[kani::stub(core::fmt::Formatter::pad, pad_stub)]
#[kani::stub(sharded_slab::Pool::clear, stub_pool_clear)]
fn c08_layered_flags_list_node() {
    let psf_outer: bool = nd();
    // list node over a non-registry collector: collector.with(layer)
    if psf_outer {
        let n = VRoot::empty().with(VRec::plain(0).with_filter(VFil::accept(true)));
        assert!(n.has_subscriber_filter && !n.inner_has_subscriber_filter && !n.inner_is_registry, "C08.flags.list_node_filtered_outer");
    } else {
        let n = VRoot::empty().with(VRec::plain(0));
        assert!(!n.has_subscriber_filter && !n.inner_has_subscriber_filter && !n.inner_is_registry, "C08.flags.list_node_plain_outer");
    }
}
// tree node `b.and_then(a)` whose collector TYPE PARAMETER is the Registry: the inner VALUE is a layer, not the registry
#[kani::proof]
#[kani::unwind(4)]
#[kani::stub(core::fmt::Formatter::pad, pad_stub)]
#[kani::stub(sharded_slab::Pool::clear, stub_pool_clear)]
fn c08_layered_flags_tree_node_under_registry() {
    let n: Layered<VRec, VRec, crate::registry::Registry> = Subscribe::<crate::registry::Registry>::and_then(VRec::plain(1), VRec::plain(0));
    assert!(!n.inner_is_registry, "C08.flags.tree_node.inner_is_registry_means_the_inner_VALUE_is_the_registry");
    assert!(!n.has_subscriber_filter && !n.inner_has_subscriber_filter, "C08.flags.tree_node.psf_flags_of_plain_parts");
}

// ---------- pick_interest: over all flags and part answers
fn node(has_psf: bool, inner_psf: bool, inner_reg: bool) -> Layered<VRec, VRec, VRoot> {
    Layered { subscriber: VRec::plain(0), inner: VRec::plain(1), has_subscriber_filter: has_psf, inner_has_subscriber_filter: inner_psf, inner_is_registry: inner_reg, _s: PhantomData }
}
#[kani::proof]
#[kani::unwind(4)]
#[kani::stub(core::fmt::Formatter::pad, pad_stub)]
fn c08_pick_interest_sound() {
    let has_psf: bool = nd(); let inner_psf: bool = nd();
    let o: u8 = nd(); let i: u8 = nd(); kani::assume(o <= 2 && i <= 2);
    let n = node(has_psf, inner_psf, false);
    let mut asked = 0u8;
    let r = vicode(&n.pick_interest(vinterest_of(o), || { asked += 1; vinterest_of(i) }));
    assert!(asked <= 1, "C08.pick_interest.inner_asked_at_most_once");
    // `never` for the node only when a part that can veto for everybody (a non-per-layer-filtered part) said never
    assert!(r != 0 || (!has_psf && o == 0) || (i == 0 && !(inner_psf && !has_psf)) , "C08.pick_interest.never_only_if_a_global_part_said_never");
    // `always` for the node only when no consulted part said less than always
    assert!(r != 2 || ((has_psf || o == 2) && i == 2), "C08.pick_interest.always_only_if_all_parts_always");
    // a per-layer-filtered outer never shadows the inner answer
    assert!(!has_psf || (asked == 1 && r == i), "C08.pick_interest.psf_outer_defers_to_inner");
}

// ---------- pick_level_hint: receive-semantics oracle with ghost (g, r) per side (DESIGN.md section 4, C08)
//   g = most verbose level the side's GLOBAL verdict lets through (5 if it never vetoes)
//   r = most verbose level at which some leaf layer inside the side would be handed the emission
//   a side's published hint h (6 = none) satisfies the induction hypothesis  h = none or h >= min(g, r)
struct Side { h: u8, g: u8, r: u8, psf: bool, is_none: bool }
fn any_side() -> Side {
    let s = Side { h: nd(), g: nd(), r: nd(), psf: nd(), is_none: nd() };
    kani::assume(s.h <= 6 && s.g <= 5 && s.r <= 5);
    kani::assume(s.h == 6 || s.h >= core::cmp::min(s.g, s.r));   // induction hypothesis
    kani::assume(!s.psf || s.g == 5);                            // per-layer-filtered sides never veto globally
    kani::assume(!s.is_none || (s.r == 0 && s.g == 5 && s.h == 0 && !s.psf)); // a None layer: receives nothing, vetoes nothing, hints OFF
    s
}
fn hint_node(o: &Side, i: &Side, inner_is_registry: bool) -> u8 {
    // the real node; the outer layer's is_none marker is what `subscriber_is_none` reads
    let n: Layered<Option<VRec>, VRec, VRoot> = Layered {
        subscriber: if o.is_none { None } else { Some(VRec::plain(0)) }, inner: VRec::plain(1),
        has_subscriber_filter: o.psf, inner_has_subscriber_filter: i.psf || inner_is_registry, inner_is_registry, _s: PhantomData };
    vrank(n.pick_level_hint(vfilter_of(o.h), vfilter_of(i.h), i.is_none))
}
fn need(o: &Side, i: &Side) -> u8 { core::cmp::min(core::cmp::min(o.g, i.g), core::cmp::max(o.r, i.r)) }

// Everything except the valuations of known finding F10 (a NON-per-layer-filtered, non-None side whose hint is
// below its own global bound g because per-layer filters inside it bound what it receives, e.g. vec![Some(filtered), None]).
fn f10_shape(s: &Side) -> bool { !s.psf && !s.is_none && s.h != 6 && s.h < s.g }
#[kani::proof]
#[kani::unwind(4)]
#[kani::stub(core::fmt::Formatter::pad, pad_stub)]
fn c08_pick_level_hint_sound_except_known() {
    let o = any_side(); let i = any_side();
    kani::assume(!f10_shape(&o) && !f10_shape(&i));
    let h = hint_node(&o, &i, false);
    assert!(h == 6 || h >= need(&o, &i), "C08.pick_level_hint.not_below_what_some_layer_receives");
}
#[kani::proof]
#[kani::unwind(4)]
#[kani::stub(core::fmt::Formatter::pad, pad_stub)]
fn c08_pick_level_hint_registry_inner() {
    // inner is the Registry itself: it receives nothing, vetoes nothing and has no hint
    let o = any_side();
    let i = Side { h: 6, g: 5, r: 0, psf: true, is_none: false };
    let h = hint_node(&o, &i, true);
    assert!(h == 6 || h >= need(&o, &i), "C08.pick_level_hint.registry_inner.not_below_what_some_layer_receives");
}
#[kani::proof]
#[kani::unwind(4)]
#[kani::stub(core::fmt::Formatter::pad, pad_stub)]
fn c08_pick_level_hint_mixed_vec_known() {
    // witness of F10: outer = plain layer without hint, inner = vec![Some(filtered INFO), None]-like side
    let o = Side { h: 6, g: 5, r: 5, psf: false, is_none: false };
    let i = Side { h: 3, g: 5, r: 3, psf: false, is_none: false };
    let h = hint_node(&o, &i, false);
    assert!(h == 6 || h >= need(&o, &i), "C08.pick_level_hint.not_below_what_some_layer_receives");
}

// ---------- the callers of pick_level_hint: a node publishes pick_level_hint of ITS OWN parts' hints, and the
// `inner_is_none` it passes is the truth about ITS INNER part (the hypothesis under which pick_level_hint was proved above)
#[kani::proof]
#[kani::unwind(4)]
#[kani::stub(core::fmt::Formatter::pad, pad_stub)]
fn c08_tree_node_hint_is_pick_of_its_own_parts() {
    let ho: u8 = nd(); let hi: u8 = nd(); kani::assume(ho <= 6 && hi <= 6);
    let outer_none: bool = nd(); let inner_none: bool = nd();
    let outer = if outer_none { None } else { Some(VRec { i: 0, global_enabled: true, interest: 1, hint: ho }) };
    let inner = if inner_none { None } else { Some(VRec { i: 1, global_enabled: true, interest: 1, hint: hi }) };
    let n: Layered<Option<VRec>, Option<VRec>, VRoot> = Layered { subscriber: outer, inner,
        has_subscriber_filter: false, inner_has_subscriber_filter: false, inner_is_registry: false, _s: PhantomData };
    let got = vrank(Subscribe::<VRoot>::max_level_hint(&n));
    let oh = Subscribe::<VRoot>::max_level_hint(&n.subscriber); let ih = Subscribe::<VRoot>::max_level_hint(&n.inner);
    assert!(vrank(oh) == if outer_none { 0 } else { ho } && vrank(ih) == if inner_none { 0 } else { hi }, "C08.Option.none_layer_hints_OFF_some_layer_hints_its_own");
    let want = vrank(n.pick_level_hint(oh, ih, inner_none));
    assert!(got == want, "C08.tree_node.hint_is_pick_level_hint_of_own_parts_with_inner_is_none_about_the_INNER_part");
}
#[kani::proof]
#[kani::unwind(4)]
#[kani::stub(core::fmt::Formatter::pad, pad_stub)]
fn c08_list_node_hint_is_pick_of_its_own_parts() {
    let ho: u8 = nd(); kani::assume(ho <= 6);
    let outer_none: bool = nd();
    let outer = if outer_none { None } else { Some(VRec { i: 0, global_enabled: true, interest: 1, hint: ho }) };
    let n: Layered<Option<VRec>, VRoot, VRoot> = Layered { subscriber: outer, inner: VRoot::empty(),
        has_subscriber_filter: false, inner_has_subscriber_filter: false, inner_is_registry: false, _s: PhantomData };
    let got = vrank(VCollect::max_level_hint(&n));
    let oh = Subscribe::<VRoot>::max_level_hint(&n.subscriber); let ih = VCollect::max_level_hint(&n.inner);
    let want = vrank(n.pick_level_hint(oh, ih, false));   // the stub root is not a None layer
    assert!(got == want, "C08.list_node.hint_is_pick_level_hint_of_own_parts");
}

// ---------- Vec<S> summaries (bounded width)
// BOUND: Vec of exactly 2 layers
#[kani::proof]
#[kani::unwind(5)]
#[kani::stub(core::fmt::Formatter::pad, pad_stub)]
fn c08_vec_summaries_bounded() {
    let (ia, ib): (u8, u8) = (nd(), nd()); let (ha, hb): (u8, u8) = (nd(), nd());
    kani::assume(ia <= 2 && ib <= 2 && ha <= 6 && hb <= 6);
    let v = vec![VRec { i: 0, global_enabled: true, interest: ia, hint: ha }, VRec { i: 1, global_enabled: true, interest: ib, hint: hb }];
    let h = vrank(Subscribe::<VRoot>::max_level_hint(&v));
    assert!(h == if ha == 6 || hb == 6 { 6 } else { core::cmp::max(ha, hb) }, "C08.Vec.hint_is_max_or_none_if_any_none");
    let i = vicode(&Subscribe::<VRoot>::register_callsite(&v, &VMETA));
    assert!(i == core::cmp::max(ia, ib), "C08.Vec.interest_is_most_interested_element");
}
