// C08 — the Targets leaf: its published summary (callsite interest, max-level hint) against its own dynamic decision.
// Appended to filter/targets.rs: Targets, its private DirectiveSet and `interested` are the real ones. Directives that
// name fields can only be built by parsing from outside the crate; here they are built with StaticDirective::new.
use crate::subscribe::{Context, Filter, Subscribe};
fn leaf_dir(target: Option<&str>, field: bool, l: u8) -> StaticDirective {
    StaticDirective::new(target.map(|s| s.to_string()), if field { vec!["x".to_string()] } else { Vec::new() }, vfilter_of(l).unwrap())
}
// BOUND: one directive on target "a" naming field "x", every level incl. OFF; callsites on "a" / "b", with / without the field, every level
// (two directives - a plain one beside it - did not finish in 900 s)
#[kani::proof]
#[kani::unwind(8)]
#[kani::stub(core::fmt::Formatter::pad, pad_stub)]
fn c08_targets_summary_agrees_with_its_decision_when_directives_name_fields_bounded() {
    let l1: u8 = nd(); kani::assume(l1 <= 5);
    let mut t = Targets::new();
    t.0.add(leaf_dir(Some("a"), true, l1));
    let lvl: u8 = nd(); kani::assume(lvl >= 1 && lvl <= 5);
    let level = *vmeta_of(lvl).level();
    let on_a: bool = nd(); let has_x: bool = nd();
    let target = if on_a { "a" } else { "b" };
    let meta_x = tracing_core::Metadata::new("q", target, level, None, None, None, tracing_core::field::FieldSet::new(&["x"], tracing_core::identify_callsite!(&VCS)), VKind::EVENT);
    let meta_0 = tracing_core::Metadata::new("q", target, level, None, None, None, tracing_core::field::FieldSet::new(&[], tracing_core::identify_callsite!(&VCS)), VKind::EVENT);
    // the harness-local metadata outlives every use below; the 'static the trait asks for is not relied on by Targets
    let meta: &'static tracing_core::Metadata<'static> = unsafe { &*(if has_x { &meta_x } else { &meta_0 } as *const tracing_core::Metadata<'_> as *const tracing_core::Metadata<'static>) };
    let root = VRoot::empty(); let cx = Context::__verif_new(&root);
    // the dynamic decision, as a per-layer filter and as a global layer
    let en = Filter::<VRoot>::enabled(&t, meta, &cx);
    let en_layer = Subscribe::<VRoot>::enabled(&t, meta, Context::__verif_new(&root));
    assert!(en == en_layer, "C08.Targets.filter_and_layer_decide_alike");
    // a directive that names a field matches only callsites that have that field
    let want = on_a && has_x && lvl <= l1;
    assert!(en == want, "C08.Targets.decision_is_the_most_specific_matching_directive_fields_included");
    let i_f = vicode(&Filter::<VRoot>::callsite_enabled(&t, meta));
    let i_s = vicode(&Subscribe::<VRoot>::register_callsite(&t, meta));
    assert!((i_f != 0 || !en) && (i_s != 0 || !en), "C08.Targets.never_only_for_a_callsite_it_rejects");
    assert!((i_f != 2 || en) && (i_s != 2 || en), "C08.Targets.always_only_for_a_callsite_it_accepts");
    let h_f = vrank(Filter::<VRoot>::max_level_hint(&t)); let h_s = vrank(Subscribe::<VRoot>::max_level_hint(&t));
    assert!(!en || (lvl <= h_f && lvl <= h_s), "C08.Targets.hint_bounds_every_level_it_accepts");
    kani::cover!(on_a && has_x && lvl <= l1, "C08.reachable.the_field_directive_accepts");
    kani::cover!(on_a && !has_x, "C08.reachable.callsite_without_the_field");
    core::mem::forget(t);
}
