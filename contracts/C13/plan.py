import importlib.util, os
_p = os.path.join(os.path.dirname(os.path.dirname(os.path.abspath(__file__))), "C07", "plan.py")
_s = importlib.util.spec_from_file_location("plan_C07_for_C13", _p); _m = importlib.util.module_from_spec(_s); _s.loader.exec_module(_m)
PLAN = dict(
    id="C13", api_files=['tracing-subscriber/src/fmt/writer.rs', 'tracing-subscriber/src/fmt/fmt_subscriber.rs'], level="other", explanation="Writer combinators: WithMaxLevel, WithMinLevel, WithFilter, Tee (and), OrElse and a nested expression are each shown to reach exactly the recording sinks their definition denotes, for every level / predicate verdict, with one make_writer_for(meta) carrying the event's metadata and one write of the whole record per reached sink; Tee writes to both even if one fails and reports the error. Subscriber::on_event with an arbitrary FormatEvent (appends a record or fails): exactly one make_writer_for(event.metadata()), exactly one write whose bytes are exactly what this call formatted, nothing on a format error, and the next event on the thread carries nothing from the previous one. Record CONTENT and span-lifecycle events are not decided. Added after seeds C13-2 / C13-3: sinks that accept fewer bytes than offered (the whole newline-terminated record must still arrive) and every write method of Tee reaching both sinks even if one fails.",
    functions_under_contract=['fmt/fmt_subscriber.rs: on_event hands over the WHOLE record also to a writer that accepts one byte per write; fmt/writer.rs: every io::Write method of Tee (write, write_all, write_vectored, flush)', 'tracing-subscriber/src/fmt/writer.rs: MakeWriter for WithMaxLevel / WithMinLevel / WithFilter / Tee / OrElse, io::Write for Tee / EitherWriter, MakeWriterExt combinator constructors', 'fmt/fmt_subscriber.rs: Subscriber::on_event, make_ctx'],
    trusted_base=["Kani 0.68 / CBMC 6.11 / CaDiCaL; Kani's std build (nightly-2026-08-21), not the repo toolchain's", 'core::fmt::Formatter::pad stubbed to Ok(()) with -Z stubbing (panic-message formatting on infeasible error branches; no harness that uses it reads formatted text)', 'cfg(kani) thread_local! shim and once_cell::sync::Lazy contract stub (see overlay_additions)', 'Pool::clear stub'],
    assumptions=['structural induction over combinator expressions (each node obligation machine-checked)', "concurrent writers: single write_all + the sink's own atomicity"],
    not_covered=['that the record names the level, spans in scope and every field, and is one line (text produced through core::fmt)', 'span lifecycle events (need real span extensions)', 'the stale-buffer-after-panic defect F6 (Kani does not model unwinding): found by a native test, repaired in /repo (27c2cb3)', 'BoxMakeWriter, MutexGuardWriter, TestWriter'],
    kani=[dict(
        crate="tracing-subscriber", tls_shim_crates=["tracing-core", "tracing-subscriber"], once_cell_stub=True,
        modules=[dict(name="__verif_c13", attach="inline", file="tracing-subscriber/src/fmt/fmt_subscriber.rs", modpath="fmt::fmt_subscriber",
                      files=["../common/sub_prelude.rs", "fmt_write.kani.rs"])],
        append=_m.SUB_APPENDS,
    )],
    manifest=dict(technique='routing contracts for each real writer combinator over recording sinks + a one-writer/one-write/own-bytes contract on the real fmt Subscriber::on_event (Kani)',
        text='Partial: routing of writer combinators and the single-writer / single-write / own-bytes clauses are proved on the real code; the content clauses (what the record names) are core::fmt text and are not decided.',
        note='Trusted: Kani/CBMC, stubs. Not decided: record content, lifecycle events, unwinding.',
        design_ref="DESIGN.md section 4, C13"),
)
