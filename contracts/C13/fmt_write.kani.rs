// C13 — fmt: one make_writer_for + one write_all per event; writer combinators route to the sinks they denote.
// Appended to fmt/fmt_subscriber.rs (real Subscriber::on_event, real writer.rs combinators).
use crate::fmt::writer::{MakeWriterExt, OptionalWriter, Tee, WithFilter, WithMaxLevel, WithMinLevel, OrElse, EitherWriter, BoxMakeWriter};
use crate::fmt::format::{FormatEvent as VFormatEvent, FormatFields as VFormatFields};
use std::io::Write as _;
use std::fmt::Write as _;

// ---- recording sinks
vstatic!(MADE: [VAtomicUsize; 2] = [VAtomicUsize::new(0), VAtomicUsize::new(0)]);          // make_writer()  (no metadata)
vstatic!(MADE_FOR: [VAtomicUsize; 2] = [VAtomicUsize::new(0), VAtomicUsize::new(0)]);      // make_writer_for(meta)
vstatic!(META_SEEN: [VAtomicUsize; 2] = [VAtomicUsize::new(0), VAtomicUsize::new(0)]);
vstatic!(WRITES: [VAtomicUsize; 2] = [VAtomicUsize::new(0), VAtomicUsize::new(0)]);
vstatic!(LEN: [VAtomicUsize; 2] = [VAtomicUsize::new(0), VAtomicUsize::new(0)]);
vstatic!(SUM: [VAtomicUsize; 2] = [VAtomicUsize::new(0), VAtomicUsize::new(0)]);
vstatic!(FAIL: [VAtomicUsize; 2] = [VAtomicUsize::new(0), VAtomicUsize::new(0)]);
vstatic!(FLUSHED: [VAtomicUsize; 2] = [VAtomicUsize::new(0), VAtomicUsize::new(0)]);
vstatic!(SHORT: [VAtomicUsize; 2] = [VAtomicUsize::new(0), VAtomicUsize::new(0)]);      // != 0: write() accepts one byte per call
vstatic!(TOTAL: [VAtomicUsize; 2] = [VAtomicUsize::new(0), VAtomicUsize::new(0)]);      // bytes ACCEPTED so far
vstatic!(ROLL: [VAtomicUsize; 2] = [VAtomicUsize::new(0), VAtomicUsize::new(0)]);       // rolling hash of the accepted bytes
fn addr<T: ?Sized>(t: &T) -> usize { t as *const T as *const () as usize }
struct Sink(usize);
struct SinkW(usize);
impl io::Write for SinkW {
    fn write(&mut self, b: &[u8]) -> io::Result<usize> {
        WRITES[self.0].fetch_add(1, VSeq); LEN[self.0].store(b.len(), VSeq);
        let mut s = 0usize; let mut i = 0; while i < b.len() { s = s.wrapping_mul(31).wrapping_add(b[i] as usize); i += 1; }
        SUM[self.0].store(s, VSeq);
        if FAIL[self.0].load(VSeq) != 0 { return Err(io::ErrorKind::Other.into()); }
        let take = if SHORT[self.0].load(VSeq) != 0 && b.len() > 1 { 1 } else { b.len() };
        let mut r = ROLL[self.0].load(VSeq); let mut i = 0; while i < take { r = r.wrapping_mul(31).wrapping_add(b[i] as usize); i += 1; }
        ROLL[self.0].store(r, VSeq); TOTAL[self.0].fetch_add(take, VSeq);
        Ok(take)
    }
    fn flush(&mut self) -> io::Result<()> { FLUSHED[self.0].fetch_add(1, VSeq); if FAIL[self.0].load(VSeq) != 0 { Err(io::ErrorKind::Other.into()) } else { Ok(()) } }
}
impl<'a> MakeWriter<'a> for Sink {
    type Writer = SinkW;
    fn make_writer(&'a self) -> SinkW { MADE[self.0].fetch_add(1, VSeq); SinkW(self.0) }
    fn make_writer_for(&'a self, m: &Metadata<'_>) -> SinkW { MADE_FOR[self.0].fetch_add(1, VSeq); META_SEEN[self.0].store(addr(m), VSeq); SinkW(self.0) }
}
fn reached(i: usize, m: &Metadata<'_>) -> bool { MADE_FOR[i].load(VSeq) == 1 && MADE[i].load(VSeq) == 0 && META_SEEN[i].load(VSeq) == addr(m) && WRITES[i].load(VSeq) == 1 && LEN[i].load(VSeq) == 3 }
fn untouched(i: usize) -> bool { MADE_FOR[i].load(VSeq) == 0 && MADE[i].load(VSeq) == 0 && WRITES[i].load(VSeq) == 0 }
fn any_rank() -> u8 { let l: u8 = nd(); kani::assume(l >= 1 && l <= 5); l }
fn level_of(r: u8) -> tracing_core::Level { match r { 1 => tracing_core::Level::ERROR, 2 => tracing_core::Level::WARN, 3 => tracing_core::Level::INFO, 4 => tracing_core::Level::DEBUG, _ => tracing_core::Level::TRACE } }

#[kani::proof]
#[kani::unwind(6)]
#[kani::stub(core::fmt::Formatter::pad, pad_stub)]
fn c13_level_bounds_route_by_level() {
    let l = any_rank(); let bound = any_rank(); let m = vmeta_of(l);
    let max: bool = nd();
    if max {
        let w = Sink(0).with_max_level(level_of(bound));
        let _ = w.make_writer_for(m).write_all(b"abc");
        assert!(if l <= bound { reached(0, m) } else { untouched(0) }, "C13.WithMaxLevel.sink_reached_iff_level_at_most_bound");
    } else {
        let w = Sink(0).with_min_level(level_of(bound));
        let _ = w.make_writer_for(m).write_all(b"abc");
        assert!(if l >= bound { reached(0, m) } else { untouched(0) }, "C13.WithMinLevel.sink_reached_iff_level_at_least_bound");
    }
}
#[kani::proof]
#[kani::unwind(6)]
#[kani::stub(core::fmt::Formatter::pad, pad_stub)]
fn c13_with_filter_routes_by_predicate() {
    let l = any_rank(); let m = vmeta_of(l); let verdict: bool = nd();
    let w = Sink(0).with_filter(move |_meta| verdict);
    let _ = w.make_writer_for(m).write_all(b"abc");
    assert!(if verdict { reached(0, m) } else { untouched(0) }, "C13.WithFilter.sink_reached_iff_predicate_accepts");
}
#[kani::proof]
#[kani::unwind(6)]
#[kani::stub(core::fmt::Formatter::pad, pad_stub)]
fn c13_tee_reaches_both_even_if_one_fails() {
    let l = any_rank(); let m = vmeta_of(l);
    let fa: bool = nd(); let fb: bool = nd();
    FAIL[0].store(fa as usize, VSeq); FAIL[1].store(fb as usize, VSeq);
    let w = Sink(0).and(Sink(1));
    let r = w.make_writer_for(m).write_all(b"abc");
    assert!(reached(0, m) && reached(1, m), "C13.Tee.both_sinks_get_the_whole_record_exactly_once");
    assert!(SUM[0].load(VSeq) == SUM[1].load(VSeq), "C13.Tee.same_bytes");
    assert!(r.is_err() == (fa || fb), "C13.Tee.error_reported_iff_a_sink_failed");
}
#[kani::proof]
#[kani::unwind(6)]
#[kani::stub(core::fmt::Formatter::pad, pad_stub)]
fn c13_or_else_falls_back_exactly_when_inner_declines() {
    let l = any_rank(); let bound = any_rank(); let m = vmeta_of(l);
    let w = Sink(0).with_max_level(level_of(bound)).or_else(Sink(1));
    let _ = w.make_writer_for(m).write_all(b"abc");
    if l <= bound { assert!(reached(0, m) && untouched(1), "C13.OrElse.inner_selected_fallback_untouched"); }
    else { assert!(untouched(0) && reached(1, m), "C13.OrElse.fallback_selected_inner_untouched"); }
}
#[kani::proof]
#[kani::unwind(6)]
#[kani::stub(core::fmt::Formatter::pad, pad_stub)]
fn c13_nested_expression_denotation() {
    // stdout-like (0) for INFO and more verbose, stderr-like (1) for WARN and more severe, both never / exactly one
    let l = any_rank(); let m = vmeta_of(l);
    let w = Sink(1).with_max_level(tracing_core::Level::WARN).and(Sink(0).with_min_level(tracing_core::Level::INFO));
    let _ = w.make_writer_for(m).write_all(b"abc");
    assert!(if l <= 2 { reached(1, m) } else { untouched(1) }, "C13.expr.severe_sink");
    assert!(if l >= 3 { reached(0, m) } else { untouched(0) }, "C13.expr.verbose_sink");
}

// ---- Subscriber::on_event with an arbitrary formatter (appends a record or fails)
struct Fe { ok: bool, second: bool }
impl<C, N> VFormatEvent<C, N> for Fe
where C: Collect + for<'a> LookupSpan<'a>, N: for<'a> VFormatFields<'a> + 'static {
    fn format_event(&self, _ctx: &FmtContext<'_, C, N>, mut w: format::Writer<'_>, e: &Event<'_>) -> std::fmt::Result {
        if !self.ok { let _ = w.write_str("junk"); return Err(std::fmt::Error); }
        if e.metadata().level() == &tracing_core::Level::INFO { w.write_str("AB\n") } else { w.write_str("C\n") }
    }
}
fn hash(b: &[u8]) -> usize { let mut s = 0usize; let mut i = 0; while i < b.len() { s = s.wrapping_mul(31).wrapping_add(b[i] as usize); i += 1; } s }
#[kani::proof]
#[kani::unwind(24)]
#[kani::stub(core::fmt::Formatter::pad, pad_stub)]
#[kani::stub(sharded_slab::Pool::clear, stub_pool_clear)]
fn c13_on_event_one_writer_one_write_own_bytes() {
    let ok: bool = nd();
    // built field by field: `Subscriber::default()` reads the NO_COLOR environment variable (foreign getenv, unsupported by Kani)
    let ansi: bool = nd();
    let layer: Subscriber<VRoot, format::DefaultFields, Fe, Sink> = Subscriber {
        make_writer: Sink(0), fmt_fields: format::DefaultFields::default(), fmt_event: Fe { ok, second: false },
        fmt_span: format::FmtSpanConfig::default(), is_ansi: ansi, log_internal_errors: false, _inner: PhantomData };
    let stack = VRoot::empty().with(layer);
    let vs = VMETA.fields().value_set(&[]); let ev = Event::new(&VMETA, &vs);
    Collect::event(&stack, &ev);
    if ok {
        assert!(MADE_FOR[0].load(VSeq) == 1 && MADE[0].load(VSeq) == 0, "C13.on_event.asks_factory_once_with_metadata");
        assert!(META_SEEN[0].load(VSeq) == addr(&VMETA), "C13.on_event.factory_gets_this_events_metadata");
        assert!(WRITES[0].load(VSeq) == 1, "C13.on_event.whole_record_in_a_single_write");
        assert!(LEN[0].load(VSeq) == 3 && SUM[0].load(VSeq) == hash(b"AB\n"), "C13.on_event.bytes_are_exactly_what_this_call_formatted");
    } else {
        assert!(untouched(0), "C13.on_event.format_error_writes_nothing");
    }
    // the next event on the thread starts from an empty buffer (whatever the first call did)
    let vs2 = VMETA_DEBUG.fields().value_set(&[]); let ev2 = Event::new(&VMETA_DEBUG, &vs2);
    let layer_ok = ok;
    let before = WRITES[0].load(VSeq);
    Collect::event(&stack, &ev2);
    if layer_ok {
        assert!(WRITES[0].load(VSeq) == before + 1 && LEN[0].load(VSeq) == 2 && SUM[0].load(VSeq) == hash(b"C\n"), "C13.on_event.second_record_carries_nothing_from_the_first");
        assert!(META_SEEN[0].load(VSeq) == addr(&VMETA_DEBUG), "C13.on_event.second_factory_call_gets_second_metadata");
    }
}

// a writer may accept fewer bytes than offered (pipes, sockets): the WHOLE newline-terminated record still has to arrive
#[kani::proof]
#[kani::unwind(24)]
#[kani::stub(core::fmt::Formatter::pad, pad_stub)]
#[kani::stub(sharded_slab::Pool::clear, stub_pool_clear)]
fn c13_on_event_whole_record_reaches_a_writer_that_accepts_one_byte_at_a_time() {
    SHORT[0].store(1, VSeq);
    let layer: Subscriber<VRoot, format::DefaultFields, Fe, Sink> = Subscriber {
        make_writer: Sink(0), fmt_fields: format::DefaultFields::default(), fmt_event: Fe { ok: true, second: false },
        fmt_span: format::FmtSpanConfig::default(), is_ansi: nd(), log_internal_errors: false, _inner: PhantomData };
    let stack = VRoot::empty().with(layer);
    let vs = VMETA.fields().value_set(&[]); let ev = Event::new(&VMETA, &vs);
    Collect::event(&stack, &ev);
    assert!(MADE_FOR[0].load(VSeq) == 1 && MADE[0].load(VSeq) == 0, "C13.on_event.short_writes.asks_factory_once_with_metadata");
    assert!(TOTAL[0].load(VSeq) == 3 && ROLL[0].load(VSeq) == hash(b"AB\n"), "C13.on_event.short_writes.the_whole_record_is_handed_over_including_the_newline");
}

// Tee: EVERY io::Write method reaches both sinks (each method is forwarded by its own macro arm), also when one fails
#[kani::proof]
#[kani::unwind(8)]
#[kani::stub(core::fmt::Formatter::pad, pad_stub)]
fn c13_tee_every_write_method_reaches_both_sinks() {
    let m = vmeta_of(any_rank());
    let fa: bool = nd(); let fb: bool = nd();
    FAIL[0].store(fa as usize, VSeq); FAIL[1].store(fb as usize, VSeq);
    let mut w = Sink(0).and(Sink(1)).make_writer_for(m);
    let method: u8 = nd(); kani::assume(method < 4);
    let failed = match method {
        0 => w.write(b"abc").is_err(),
        1 => w.write_all(b"abc").is_err(),
        2 => { let bufs = [io::IoSlice::new(b"abc")]; w.write_vectored(&bufs).is_err() }
        _ => w.flush().is_err(),
    };
    if method == 3 {
        assert!(FLUSHED[0].load(VSeq) == 1 && FLUSHED[1].load(VSeq) == 1, "C13.Tee.flush_reaches_both_sinks_even_if_one_fails");
    } else {
        assert!(WRITES[0].load(VSeq) == 1 && WRITES[1].load(VSeq) == 1 && LEN[0].load(VSeq) == 3 && LEN[1].load(VSeq) == 3, "C13.Tee.every_write_method_hands_both_sinks_the_whole_buffer_once");
        assert!(SUM[0].load(VSeq) == SUM[1].load(VSeq), "C13.Tee.every_write_method.same_bytes");
    }
    assert!(failed == (fa || fb), "C13.Tee.every_write_method.error_reported_iff_a_sink_failed");
}

// EitherWriter / OptionalWriter: every io::Write method goes to the side that is there, with the same bytes and result;
// `none()` swallows (reports success, reaches no sink)
#[kani::proof]
#[kani::unwind(8)]
#[kani::stub(core::fmt::Formatter::pad, pad_stub)]
fn c13_either_and_optional_writer_forward_to_the_side_that_is_there() {
    let side_a: bool = nd(); let fail: bool = nd();
    FAIL[0].store(fail as usize, VSeq); FAIL[1].store(fail as usize, VSeq);
    let mut w: EitherWriter<SinkW, SinkW> = if side_a { EitherWriter::A(SinkW(0)) } else { EitherWriter::B(SinkW(1)) };
    let (here, other) = if side_a { (0usize, 1usize) } else { (1, 0) };
    let method: u8 = nd(); kani::assume(method < 4);
    let failed = match method {
        0 => w.write(b"abc").is_err(),
        1 => w.write_all(b"abc").is_err(),
        2 => { let bufs = [io::IoSlice::new(b"abc")]; w.write_vectored(&bufs).is_err() }
        _ => w.flush().is_err(),
    };
    if method == 3 { assert!(FLUSHED[here].load(VSeq) == 1 && FLUSHED[other].load(VSeq) == 0, "C13.EitherWriter.flush_reaches_only_the_present_side"); }
    else { assert!(WRITES[here].load(VSeq) == 1 && LEN[here].load(VSeq) == 3 && WRITES[other].load(VSeq) == 0, "C13.EitherWriter.write_reaches_only_the_present_side_with_the_whole_buffer"); }
    assert!(failed == fail, "C13.EitherWriter.result_is_the_present_sides");
    // OptionalWriter
    let mut some = OptionalWriter::some(SinkW(0)); let before = WRITES[0].load(VSeq);
    let r = some.write_all(b"xy");
    assert!(WRITES[0].load(VSeq) == before + 1 && r.is_err() == fail, "C13.OptionalWriter.some_forwards");
    let mut none: OptionalWriter<SinkW> = OptionalWriter::none(); let b0 = WRITES[0].load(VSeq); let b1 = WRITES[1].load(VSeq);
    assert!(none.write_all(b"xy").is_ok() && WRITES[0].load(VSeq) == b0 && WRITES[1].load(VSeq) == b1, "C13.OptionalWriter.none_swallows_and_reaches_no_sink");
}
