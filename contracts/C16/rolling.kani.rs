// C16 — rolling appender: period arithmetic and the rotation election. Appended to tracing-appender/src/rolling.rs
// (real Rotation::{round_date,next_date}, Inner::{should_rollover,advance_date}).
fn nd<T: kani::Arbitrary>() -> T { kani::any() }
fn pad_stub<'a>(_f: &mut core::fmt::Formatter<'a>, _s: &str) -> core::fmt::Result where 'a: 'a { Ok(()) }

/// every valid UTC instant of the years 1970..=2399, built from components (the timestamp form of these
/// obligations needs 64-bit div/mod chains that CBMC does not finish; DESIGN.md section 7)
fn any_instant() -> (OffsetDateTime, time::Date, u8, u8, u8, u32) {
    let year: i32 = nd(); let ordinal: u16 = nd();
    kani::assume(year >= 1970 && year <= 2399);
    kani::assume(ordinal >= 1 && ordinal <= 366);
    let date = match time::Date::from_ordinal_date(year, ordinal) { Ok(d) => d, Err(_) => { kani::assume(false); unreachable!() } };
    let (h, m, s, ns): (u8, u8, u8, u32) = (nd(), nd(), nd(), nd());
    kani::assume(h < 24 && m < 60 && s < 60 && ns < 1_000_000_000);
    let t = Time::from_hms_nano(h, m, s, ns).unwrap();
    (time::PrimitiveDateTime::new(date, t).assume_utc(), date, h, m, s, ns)
}
fn any_rotation() -> (Rotation, u8) {
    let k: u8 = nd(); kani::assume(k < 3);
    (match k { 0 => Rotation::MINUTELY, 1 => Rotation::HOURLY, _ => Rotation::DAILY }, k)
}
fn period(k: u8) -> Duration { match k { 0 => Duration::minutes(1), 1 => Duration::hours(1), _ => Duration::days(1) } }

#[kani::proof]
#[kani::unwind(14)]
#[kani::stub(core::fmt::Formatter::pad, pad_stub)]
fn c16_round_date_is_start_of_period() {
    let (now, date, h, m, _s, _ns) = any_instant(); let (rot, k) = any_rotation();
    let r = rot.round_date(&now);
    assert!(r.date() == date, "C16.round_date.same_calendar_day");
    assert!(r.hour() == if k == 2 { 0 } else { h }, "C16.round_date.hour_kept_or_zero_for_daily");
    assert!(r.minute() == if k == 0 { m } else { 0 }, "C16.round_date.minute_kept_only_for_minutely");
    assert!(r.second() == 0 && r.nanosecond() == 0, "C16.round_date.seconds_and_below_zeroed");
    assert!(r <= now, "C16.round_date.never_in_the_future");
    assert!(r.offset() == now.offset(), "C16.round_date.offset_kept");
}

// BOUND: instants of the years 1970..=2399 (component form)
#[kani::proof]
#[kani::unwind(14)]
#[kani::stub(core::fmt::Formatter::pad, pad_stub)]
fn c16_next_date_is_next_period_start_bounded() {
    let (now, _date, _h, _m, _s, _ns) = any_instant(); let (rot, k) = any_rotation();
    let n = rot.next_date(&now).unwrap();
    let start = rot.round_date(&now);
    assert!(n - start == period(k), "C16.next_date.exactly_one_period_after_this_periods_start");
    assert!(n > now, "C16.next_date.strictly_after_now");
    assert!(n.second() == 0 && n.nanosecond() == 0 && (k == 0 || n.minute() == 0) && (k != 2 || n.hour() == 0), "C16.next_date.is_a_period_boundary");
    assert!(Rotation::NEVER.next_date(&now).is_none(), "C16.next_date.never_has_no_next");
}

fn inner(rot: Rotation, next: usize) -> Inner {
    Inner { log_directory: PathBuf::new(), log_filename_prefix: None, log_filename_suffix: None, date_format: Vec::new(),
            next_date: AtomicUsize::new(next), rotation: rot, max_files: None }
}

#[kani::proof]
#[kani::unwind(14)]
#[kani::stub(core::fmt::Formatter::pad, pad_stub)]
fn c16_should_rollover_only_at_or_after_the_boundary() {
    let (now, ..) = any_instant(); let (rot, _k) = any_rotation();
    let next: usize = nd();
    let st = inner(rot, next);
    let ts = now.unix_timestamp() as usize;
    let got = st.should_rollover(now);
    assert!(got == if next != 0 && ts >= next { Some(next) } else { None }, "C16.should_rollover.some_boundary_iff_reached");
    // time standing still or stepping back (below the stored boundary) never rotates
    assert!(!(ts < next) || got.is_none(), "C16.should_rollover.no_rotation_before_the_boundary");
    assert!(st.next_date.load(Ordering::SeqCst) == next, "C16.should_rollover.reads_only");
}

// The election itself is independent of calendar arithmetic: `next` stands for next_date(now) (whose contract
// - strictly after now, on a period boundary - is c16_next_date_is_next_period_start_bounded).
#[kani::proof]
#[kani::unwind(14)]
#[kani::stub(core::fmt::Formatter::pad, pad_stub)]
fn c16_advance_date_elects_a_single_rotator() {
    // a concrete instant keeps the `time` arithmetic constant; stored/current boundaries are fully symbolic
    let now = time::PrimitiveDateTime::new(time::Date::from_ordinal_date(2024, 60).unwrap(), Time::from_hms_nano(23, 59, 59, 7).unwrap()).assume_utc();
    let (rot, _k) = any_rotation();
    let stored: usize = nd(); let current: usize = nd();
    let ts = now.unix_timestamp() as usize;
    // `current` is what should_rollover returned to this caller: a non-zero boundary that `now` has reached
    kani::assume(current != 0 && ts >= current);
    let st = inner(rot.clone(), stored);
    let won = st.advance_date(now, current);
    assert!(won == (stored == current), "C16.advance_date.wins_iff_nobody_advanced_the_boundary_first");
    if won {
        let new = st.next_date.load(Ordering::SeqCst);
        assert!(new == rot.next_date(&now).unwrap().unix_timestamp() as usize, "C16.advance_date.stores_the_next_boundary");
        assert!(new > ts && new > current, "C16.advance_date.boundary_moves_strictly_forward_past_now");
        assert!(st.should_rollover(now).is_none(), "C16.advance_date.same_instant_does_not_rotate_again");
        assert!(!st.advance_date(now, current), "C16.advance_date.a_second_caller_holding_the_old_boundary_loses");
    } else {
        assert!(st.next_date.load(Ordering::SeqCst) == stored, "C16.advance_date.loser_changes_nothing");
    }
}

// ---------- Inner::prune_old_logs: the part after the directory listing is extracted from the real function on every run
// (generator gen_prune_tail, appended below) and run over recording stand-ins: `fs::remove_file` notes which entry is
// removed, `eprintln!` is a no-op, an entry is (id, creation time).
vstatic!(REMOVED_MASK: core::sync::atomic::AtomicUsize = core::sync::atomic::AtomicUsize::new(0));
vstatic!(REMOVE_CALLS: core::sync::atomic::AtomicUsize = core::sync::atomic::AtomicUsize::new(0));
pub(crate) struct VPath(u8);
impl VPath { fn display(&self) -> u8 { self.0 } }
pub(crate) struct VEntry { id: u8 }
impl VEntry { fn path(&self) -> VPath { VPath(self.id) } }
mod fs {
    pub(crate) fn remove_file(p: super::VPath) -> std::io::Result<()> {
        use core::sync::atomic::Ordering::SeqCst;
        super::REMOVE_CALLS.fetch_add(1, SeqCst);
        super::REMOVED_MASK.fetch_or(1usize << p.0, SeqCst);
        Ok(())
    }
}
macro_rules! eprintln { ($($t:tt)*) => { { } }; }
/// the listing: a Vec whose `sort_by_key` is a plain stable insertion sort (contract of std's sort_by_key, which CBMC
/// does not get through even for 3 elements)
pub(crate) struct VFiles(Vec<(VEntry, u64)>);
impl core::ops::Deref for VFiles { type Target = [(VEntry, u64)]; fn deref(&self) -> &Self::Target { &self.0 } }
impl core::ops::DerefMut for VFiles { fn deref_mut(&mut self) -> &mut Self::Target { &mut self.0 } }
impl VFiles {
    // every other slice method (len, iter, first, ...) comes through Deref; only the sort is replaced
    fn sort_by_key<K: Ord, F: FnMut(&(VEntry, u64)) -> K>(&mut self, mut f: F) {
        let n = self.0.len(); let mut i = 1;
        while i < n { let mut j = i; while j > 0 && f(&self.0[j - 1]) > f(&self.0[j]) { self.0.swap(j - 1, j); j -= 1; } i += 1; }
    }
}
// BOUND: directories of up to 4 of the appender's files, any creation times, file limit 1..=4
#[kani::proof]
#[kani::unwind(7)]
#[kani::stub(core::fmt::Formatter::pad, pad_stub)]
fn c16_prune_leaves_limit_minus_one_newest_bounded() {
    use core::sync::atomic::Ordering::SeqCst;
    let n: usize = nd(); kani::assume(n <= 4);
    let max_files: usize = nd(); kani::assume(max_files >= 1 && max_files <= 4);
    let c8: [u8; 4] = nd(); let created: [u64; 4] = [c8[0] as u64, c8[1] as u64, c8[2] as u64, c8[3] as u64];
    let mut files: Vec<(VEntry, u64)> = Vec::with_capacity(4);
    let mut i = 0; while i < n { files.push((VEntry { id: i as u8 }, created[i])); i += 1; }
    __extracted_prune_tail(VFiles(files), max_files);
    let mask = REMOVED_MASK.load(SeqCst); let calls = REMOVE_CALLS.load(SeqCst);
    // how many must go so that max_files - 1 remain before the new file is created
    let want = if n < max_files { 0 } else { n - (max_files - 1) };
    let mut removed = 0; let mut i = 0; while i < 4 { if mask & (1 << i) != 0 { removed += 1; } i += 1; }
    assert!(calls == want && removed == want, "C16.prune.every_rotation_leaves_at_most_limit_minus_one_old_files_each_removed_once");
    // oldest first: nothing that stays is older than something that went
    let mut i = 0;
    while i < n { let mut j = 0; while j < n {
        if mask & (1 << i) != 0 && mask & (1 << j) == 0 { assert!(created[i] <= created[j], "C16.prune.removes_the_oldest_first"); }
        j += 1; } i += 1; }
    assert!(mask >> n == 0, "C16.prune.removes_only_listed_files");
    kani::cover!(n == 4 && max_files == 2, "C16.reachable.backlog_larger_than_the_limit");
}

// ---- file names: the format description each rotation kind hands to `time`, and the shape join_date gives the name ----
#[allow(deprecated)]
fn is_lit(i: &format_description::FormatItem<'static>, s: &[u8]) -> bool {
    match i { format_description::FormatItem::Literal(l) => *l == s, format_description::FormatItem::StringLiteral(l) => l.as_bytes() == s, _ => false }
}

// One harness per rotation kind, each on a CONCRETE kind: time's description parser then runs on a constant string and
// constant-folds (one harness over a symbolic kind took 270 s and did not finish within 900 s on a changed description).
fn date_format_body(k: u8) {
    use format_description::{Component, FormatItem};
    let r = match k { 0 => Rotation::MINUTELY, 1 => Rotation::HOURLY, 2 => Rotation::DAILY, _ => Rotation::NEVER };
    let f = r.date_format();
    let want_len = match k { 0 => 9, 1 => 7, _ => 5 };
    assert!(f.len() == want_len, "C16.date_format.one_component_per_calendar_field_down_to_the_period");
    // calendar year / numeric month / day of month (/ 24 h hour / minute), each with time's default modifiers (zero padded, no
    // mandatory sign) - the component KIND is what names the period: a week-based year or a 12 h hour names another one
    assert!(f[0] == FormatItem::Component(Component::CalendarYearFullStandardRange(Default::default())), "C16.date_format.year_is_the_calendar_year");
    assert!(is_lit(&f[1], b"-") && is_lit(&f[3], b"-"), "C16.date_format.fields_are_joined_by_dashes");
    assert!(f[2] == FormatItem::Component(Component::MonthNumerical(Default::default())), "C16.date_format.month_is_numeric");
    assert!(f[4] == FormatItem::Component(Component::Day(Default::default())), "C16.date_format.day_of_month");
    if k <= 1 {
        assert!(is_lit(&f[5], b"-") && f[6] == FormatItem::Component(Component::Hour24(Default::default())), "C16.date_format.hour_is_24h");
    }
    if k == 0 {
        assert!(is_lit(&f[7], b"-") && f[8] == FormatItem::Component(Component::Minute(Default::default())), "C16.date_format.minute");
    }
    core::mem::forget(f);
}
// BOUND: none on the inputs (the description string of that rotation kind is a constant); the unwinding bound covers time's parser on it
#[kani::proof]
#[kani::unwind(48)]
#[kani::stub(core::fmt::Formatter::pad, pad_stub)]
fn c16_date_format_minutely_names_the_calendar_fields_of_the_period_bounded() { date_format_body(0) }
// BOUND: none on the inputs (the description string of that rotation kind is a constant); the unwinding bound covers time's parser on it
#[kani::proof]
#[kani::unwind(48)]
#[kani::stub(core::fmt::Formatter::pad, pad_stub)]
fn c16_date_format_hourly_names_the_calendar_fields_of_the_period_bounded() { date_format_body(1) }
// BOUND: none on the inputs (the description string of that rotation kind is a constant); the unwinding bound covers time's parser on it
#[kani::proof]
#[kani::unwind(48)]
#[kani::stub(core::fmt::Formatter::pad, pad_stub)]
fn c16_date_format_daily_names_the_calendar_fields_of_the_period_bounded() { date_format_body(2) }
// BOUND: none on the inputs (the description string of that rotation kind is a constant); the unwinding bound covers time's parser on it
#[kani::proof]
#[kani::unwind(48)]
#[kani::stub(core::fmt::Formatter::pad, pad_stub)]
fn c16_date_format_never_names_the_calendar_fields_of_the_period_bounded() { date_format_body(3) }

// Measured and dropped: a harness on `Inner::join_date` with `OffsetDateTime::format` replaced by a marker stub (where the
// period text goes between prefix and suffix, 16 combinations) does not finish in 900 s, neither with symbolic nor with
// concrete combinations (`format!` over `String`s under CBMC). join_date stays under not_covered.
