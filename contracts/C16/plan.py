
RL = "tracing-appender/src/rolling.rs"
def gen_prune_tail(repo):
    """Tail of Inner::prune_old_logs after the directory listing (`let mut files = match files {..};`): the early return,
    the sort by creation time and the removal loop, extracted verbatim into a function over the harness module's stand-ins
    (`fs::remove_file`, entry.path(), a no-op `eprintln!`, and `VFiles`, a Vec wrapper whose sort_by_key is a plain stable
    insertion sort - std's sort is assumed to be a stable sort and is too expensive for CBMC - are defined there).  The directory listing itself
    (read_dir, metadata, name filters) is dropped: file-system calls are out of Kani's reach."""
    from vlib import extract
    ex = extract.Extractor(repo)
    body = ex.fn_body(RL, r"fn prune_old_logs\(&self, max_files: usize\)", within=r"impl Inner")
    _, tail = ex.split_after(body, "let mut files = match files")
    return ("\n// ---- mechanically extracted from " + RL + " (tail of Inner::prune_old_logs after the directory listing) ----\n"
            "fn __extracted_prune_tail(files: VFiles, max_files: usize) {\n    let mut files = files;\n" + tail + "\n}\n")


PLAN = dict(
    id="C16", api_files=['tracing-appender/src/rolling.rs'], level="other", explanation='Time arithmetic and the rotation election: Rotation::round_date is the start of the period containing the instant (component form, every valid instant of 1970..=2399); next_date is exactly one period after that start, strictly after now, on a boundary (bounded to those years); Inner::should_rollover returns the stored boundary iff it is non-zero and reached - so time standing still or stepping back below the boundary never rotates; Inner::advance_date wins iff nobody advanced the boundary first, stores next_date(now) which is strictly beyond now and the old boundary, after which the same instant does not rotate again and a second caller holding the old boundary loses (single rotation per boundary). File-system effects and pruning are out of reach.',
    functions_under_contract=['tracing-appender/src/rolling.rs: Rotation::date_format - the parsed description of each rotation kind is calendar year, numeric month, day of month (, 24 h hour, minute) joined by dashes (one concrete harness per kind, through time\'s real parser)', 'tracing-appender/src/rolling.rs: Inner::prune_old_logs - the part after the directory listing (early return, sort by creation time, removal loop), extracted mechanically on every run; std sort_by_key replaced by a stable insertion sort (assumed contract)', 'tracing-appender/src/rolling.rs: Rotation::{round_date,next_date}, Inner::{should_rollover,advance_date}'],
    trusted_base=["Kani 0.68 / CBMC 6.11 / CaDiCaL; Kani's std build (nightly-2026-08-21), not the repo toolchain's", 'core::fmt::Formatter::pad stubbed to Ok(()) with -Z stubbing (panic-message formatting on infeasible error branches; no harness that uses it reads formatted text)', 'cfg(kani) thread_local! shim and once_cell::sync::Lazy contract stub (see overlay_additions)', "the `time` crate's Date/Time/OffsetDateTime arithmetic is executed, not stubbed"],
    assumptions=['atomicity of the compare_exchange (sequential execution)', 'timestamps >= 0 (`as usize` casts)'],
    not_covered=['bytes landing in files, refresh_writer, the head of prune_old_logs (directory iteration, file-name matching, creation times; its tail - early return, sort, removal loop - is extracted and under contract)', 'join_date (where the period text goes between prefix and suffix, and time\'s formatting of an instant by the description: a harness with a marker stub for OffsetDateTime::format did not finish in 900 s)', 'RollingFileAppender::{write,make_writer} control flow (needs a File)'],
    kani=[dict(
        crate="tracing-appender", tls_shim_crates=["tracing-core", "tracing-subscriber"], once_cell_stub=True,
        modules=[dict(name="__verif_c16", attach="inline", file="tracing-appender/src/rolling.rs", modpath="rolling", files=["rolling.kani.rs"], generator="gen_prune_tail")],
    )],
    manifest=dict(technique='contracts on the real period arithmetic and CAS election, instants built from components (Kani)',
        text='Partial: period arithmetic and the single-winner election are proved/bounded on the real code; which of the listed files a rotation removes (count and oldest-first) is bounded on the extracted tail of prune_old_logs; where bytes land and the directory listing itself are I/O with no contract within reach.',
        note='Bounds: years 1970..=2399 for next_date. I/O not covered.',
        design_ref="DESIGN.md section 4, C16"),
)
