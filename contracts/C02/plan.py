import importlib.util, os
_c01 = os.path.join(os.path.dirname(os.path.dirname(os.path.abspath(__file__))), "C01", "plan.py")
_s = importlib.util.spec_from_file_location("plan_C01_for_C02", _c01); _m = importlib.util.module_from_spec(_s); _s.loader.exec_module(_m)

def build_history(ex):
    return open(os.path.join(os.path.dirname(os.path.abspath(__file__)), "lemma_c02.verus.rs")).read()


PLAN = dict(
    id="C02", api_files=['tracing-core/src/dispatch.rs'],
    level="other",
    explanation=(
        "The per-thread representation invariant I2'' of the default-dispatch state (with a live scope: the thread-local default is the top of this thread's "
        "scope stack; without one: None or - only when the global default is set - that global; SCOPED_COUNT >= number of this thread's scopes) is shown inductive: "
        "get_default/get_default_slow, get_current/Entered::current, set_default + DefaultGuard drop (single and nested, LIFO), with_default and "
        "set_global_default are each started by a loop-free Kani harness from an ARBITRARY concrete state satisfying the invariant (symbolic: "
        "scope or none, global set or unset, cached global or not, any SCOPED_COUNT contributed by other threads) and must hand f the dispatch "
        "resolve(sigma, G) exactly once and re-establish the invariant. A Verus lemma layer (lemma_c02.verus.rs) takes these contracts as the transition relation of an abstract machine (scope stack, guards with their restore values, one-shot global) and proves by induction over histories that the invariant holds after EVERY finite well-nested history and that an emission sees resolve(sigma, G). Hence the statement for every finite nested history of one thread, wherever "
        "set_global_default falls in it. Claimed as `other`, not proof, because the cross-thread clauses are a frame assumption."),
    functions_under_contract=[
        "tracing-core/src/dispatch.rs: get_default, get_default_slow, get_current, Entered::current, State::set_default, set_default, with_default, Drop for DefaultGuard, set_global_default, get_global, has_been_set",
    ],
    trusted_base=[
        "Kani 0.68 / CBMC 6.11 / CaDiCaL; Kani's std build",
        "core::fmt::Formatter::pad stubbed to Ok(()) (panic-message formatting on infeasible error branches; no harness reads formatted text)",
    ],
    assumptions=[
        "thread_local! semantics: another thread's CURRENT_STATE is outside the frame of every operation (Kani has one thread); the only shared writes are SCOPED_COUNT (taken symbolic) and the one-shot global",
        "atomicity of the GLOBAL_INIT compare_exchange (sequential execution only)",
        "restoration on panic = Drop on unwind (Rust semantics); the harnesses drop the guard explicitly, and one of them does so with std::thread::panicking() replaced by an unconstrained answer (the only thing that drop could observe about an unwind)",
    ],
    not_covered=["interleavings of set_global_default with emissions on other threads", "tracing::dispatch / tracing::collect re-exports (same functions)", "no_std build (no scoped defaults)"],
    verus=[dict(name="history", builder="build_history",
                obligations=["emission_sees_resolve", "set_default_preserves", "drop_preserves", "set_global_preserves", "history_invariant"])],
    kani=[dict(
        crate="tracing-core", tls_shim=True, once_cell_stub=True,
        modules=[dict(name="__verif_c02", attach="inline", file="tracing-core/src/dispatch.rs",
                      modpath="dispatch", files=["../common/core_prelude.rs", "../common/core_stub.rs", "default_state.kani.rs"])],
        append=[dict(file="tracing-core/src/dispatch.rs", text=_m.DISPATCH_HELPER, kind="cfg(kani) constructor helper")],
    )],
    manifest=dict(
        technique="inductive representation invariant: Kani loop-free harnesses on the real dispatch.rs from an arbitrary invariant-satisfying state",
        text=("Every operation on the default-dispatch state (get_default, get_current, set_default/guard drop, nested scopes, with_default, "
              "set_global_default) is proved, on the real code and from an arbitrary state satisfying the representation invariant, to hand out "
              "innermost-scope-else-global-else-none exactly once and to re-establish the invariant; so the single-thread part of the statement holds for "
              "every finite history, including every position of set_global_default. Cross-thread independence is a stated frame assumption, hence `other`."),
        note=("Trusted: Kani/CBMC, the cfg(kani) thread_local! shim (one static = this thread's view), Formatter::pad stub. Assumed: other threads only "
              "touch SCOPED_COUNT and the one-shot global; CAS atomicity; Drop on unwind. Defect F1 (stale cached default) was found by these obligations and repaired in /repo (fix: ee5de9d)."),
        design_ref="DESIGN.md section 4, C02"),
)
