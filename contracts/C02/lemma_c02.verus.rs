use vstd::prelude::*;
verus! {
// ---- C02 lemma layer (pure Verus): the per-thread default-dispatch state machine.
// Abstract state of one thread: sigma = this thread's live scopes (innermost last), g = the process-wide default.
// Concrete representation: `default` (CURRENT_STATE.default) and, for every live guard, the value it will restore.
// The transition relations below ARE the function contracts discharged by Kani on the real dispatch.rs
// (c02_get_default_from_any_state, c02_get_current_from_any_state, c02_scope_installs_and_restores,
//  c02_nested_scopes_unwind_lifo, c02_with_default_is_a_scope, c02_set_global_default_exactly_once).
struct St {
    sigma: Seq<int>,               // dispatch ids of the live scopes of this thread
    priors: Seq<Option<int>>,      // what guard i restores on drop (same length as sigma)
    default: Option<int>,          // CURRENT_STATE.default
    g: Option<int>,                // global default (None = not set)
}
spec const NOOP: int = -1;
spec fn resolve(sigma: Seq<int>, g: Option<int>) -> int {
    if sigma.len() > 0 { sigma.last() } else { match g { Some(x) => x, None => NOOP } }
}
// representation invariant I2'' for a (sigma, default) pair
spec fn rep_ok(sigma: Seq<int>, default: Option<int>, g: Option<int>) -> bool {
    if sigma.len() > 0 { default == Some(sigma.last()) }
    else { default is None || (g is Some && default == g) }
}
spec fn inv(s: St) -> bool {
    &&& s.priors.len() == s.sigma.len()
    &&& rep_ok(s.sigma, s.default, s.g)
    // every live guard restores a value that is a valid representation of the stack below it
    &&& forall|i: int| 0 <= i < s.sigma.len() ==> rep_ok(s.sigma.take(i), #[trigger] s.priors[i], s.g)
}
// what an emission sees, computed from the CONCRETE state the way get_default does (post-fix code):
// the thread-local default if present, else the global, else the no-op collector
spec fn sees(s: St) -> int { match s.default { Some(d) => d, None => match s.g { Some(x) => x, None => NOOP } } }

proof fn emission_sees_resolve(s: St)
    requires inv(s)
    ensures sees(s) == resolve(s.sigma, s.g)
{ }

// set_default(d): push a scope; the guard remembers the current concrete default
spec fn after_set_default(s: St, d: int) -> St {
    St { sigma: s.sigma.push(d), priors: s.priors.push(s.default), default: Some(d), g: s.g }
}
proof fn set_default_preserves(s: St, d: int)
    requires inv(s)
    ensures inv(after_set_default(s, d)), resolve(after_set_default(s, d).sigma, s.g) == d
{
    let t = after_set_default(s, d);
    assert forall|i: int| 0 <= i < t.sigma.len() implies rep_ok(t.sigma.take(i), #[trigger] t.priors[i], t.g) by {
        if i < s.sigma.len() {
            assert(t.sigma.take(i) =~= s.sigma.take(i));
            assert(t.priors[i] == s.priors[i]);
        } else {
            assert(t.sigma.take(i) =~= s.sigma);
        }
    }
}
// dropping the innermost guard (LIFO; also what unwinding does): pop the scope, restore its prior
spec fn after_drop(s: St) -> St {
    St { sigma: s.sigma.drop_last(), priors: s.priors.drop_last(), default: s.priors.last(), g: s.g }
}
proof fn drop_preserves(s: St)
    requires inv(s), s.sigma.len() > 0
    ensures inv(after_drop(s))
{
    let t = after_drop(s);
    let n = s.sigma.len() - 1;
    assert(s.sigma.take(n) =~= t.sigma);
    assert(rep_ok(s.sigma.take(n), s.priors[n], s.g));
    assert forall|i: int| 0 <= i < t.sigma.len() implies rep_ok(t.sigma.take(i), #[trigger] t.priors[i], t.g) by {
        assert(t.sigma.take(i) =~= s.sigma.take(i));
        assert(t.priors[i] == s.priors[i]);
    }
}
// set_global_default(h): succeeds exactly when no global is set; never touches the thread-local state
spec fn after_set_global(s: St, h: int) -> St { if s.g is None { St { g: Some(h), ..s } } else { s } }
proof fn set_global_preserves(s: St, h: int)
    requires inv(s)
    ensures inv(after_set_global(s, h)), s.g is Some ==> after_set_global(s, h) == s
{
    let t = after_set_global(s, h);
    if s.g is None {
        // no representation could mention the (unset) global, so every rep_ok clause that held still holds
        assert forall|i: int| 0 <= i < t.sigma.len() implies rep_ok(t.sigma.take(i), #[trigger] t.priors[i], t.g) by {
            assert(rep_ok(s.sigma.take(i), s.priors[i], s.g));
        }
    }
}
// get_default / get_current / emissions do not change the state (post-fix code never caches)

// ---- histories: a finite well-nested sequence of operations of ONE thread (other threads only change g, once)
enum Op { SetDefault(int), DropInnermost, SetGlobal(int), Emit }
spec fn step(s: St, op: Op) -> St {
    match op {
        Op::SetDefault(d) => after_set_default(s, d),
        Op::DropInnermost => if s.sigma.len() > 0 { after_drop(s) } else { s },
        Op::SetGlobal(h) => after_set_global(s, h),
        Op::Emit => s,
    }
}
spec fn run(s: St, ops: Seq<Op>) -> St decreases ops.len() {
    if ops.len() == 0 { s } else { step(run(s, ops.drop_last()), ops.last()) }
}
spec fn initial() -> St { St { sigma: Seq::empty(), priors: Seq::empty(), default: None, g: None } }

proof fn history_invariant(ops: Seq<Op>)
    ensures inv(run(initial(), ops)), sees(run(initial(), ops)) == resolve(run(initial(), ops).sigma, run(initial(), ops).g)
    decreases ops.len()
{
    if ops.len() > 0 {
        history_invariant(ops.drop_last());
        let s = run(initial(), ops.drop_last());
        match ops.last() {
            Op::SetDefault(d) => { set_default_preserves(s, d); }
            Op::DropInnermost => { if s.sigma.len() > 0 { drop_preserves(s); } }
            Op::SetGlobal(h) => { set_global_preserves(s, h); }
            Op::Emit => { }
        }
    }
    emission_sees_resolve(run(initial(), ops));
}
} // verus!
fn main() {}
