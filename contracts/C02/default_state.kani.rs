// C02 — the per-thread default-dispatch state. Appended to tracing-core/src/dispatch.rs, so CURRENT_STATE,
// SCOPED_COUNT, GLOBAL_INIT, get_default_slow, State::set_default, DefaultGuard are the real ones.
//
// Abstract state of one thread: sigma = stack of live scopes of THIS thread, G = unset | set(g).
//   resolve(sigma, G) = top(sigma), else g, else the no-op collector.
// Representation invariant I2'' (inductive; every operation is started from an ARBITRARY state satisfying it):
//   sigma non-empty:  default = Some(top sigma)
//   sigma empty:      default = None  |  default = Some(g) and G = set(g)   (a cached global is only allowed if it IS the global)
//   and SCOPED_COUNT >= |sigma| (other threads' scopes make it larger: it is symbolic).
use vstub::Stub;

fn same(a: &Dispatch, b: &Dispatch) -> bool {
    core::ptr::eq(a.collector() as *const _ as *const (), b.collector() as *const _ as *const ())
}
fn mk(i: usize) -> Dispatch { Dispatch::__verif_unregistered(Stub { i, answer: [1, 1], hint: None }) }
fn is_noop(d: &Dispatch) -> bool { d.is::<NoCollector>() }

struct Pre { g_set: bool, scoped: bool, g: Dispatch, d1: Dispatch, count0: usize }

/// Establish an arbitrary concrete state satisfying I2''.
fn arbitrary_state() -> Pre {
    let g = mk(0); let d1 = mk(1);
    let g_set: bool = nd(); let scoped: bool = nd(); let cached_global: bool = nd();
    if g_set { assert!(set_global_default(g.clone()).is_ok(), "C02.setup.first_set_global_default_ok"); }
    let others: usize = nd(); kani::assume(others < usize::MAX - 4);
    let count0 = others + scoped as usize;
    SCOPED_COUNT.store(count0, Ordering::SeqCst);
    CURRENT_STATE.with(|s| {
        s.can_enter.set(true);
        *s.default.borrow_mut() = if scoped { Some(d1.clone()) } else if cached_global && g_set { Some(g.clone()) } else { None };
    });
    Pre { g_set, scoped, g, d1, count0 }
}
fn resolves_to(p: &Pre, d: &Dispatch) -> bool {
    if p.scoped { same(d, &p.d1) } else if p.g_set { same(d, &p.g) } else { is_noop(d) }
}
fn inv_holds(p: &Pre) -> bool {
    CURRENT_STATE.with(|s| {
        let ok_default = match &*s.default.borrow() {
            None => !p.scoped,
            Some(d) => if p.scoped { same(d, &p.d1) } else { p.g_set && same(d, &p.g) },
        };
        ok_default && s.can_enter.get() && SCOPED_COUNT.load(Ordering::SeqCst) == p.count0
    })
}

#[kani::proof]
#[kani::unwind(3)]
#[kani::stub(core::fmt::Formatter::pad, pad_stub)]
fn c02_get_default_from_any_state() {
    let p = arbitrary_state();
    let mut calls = 0u8; let mut right = false;
    get_default(|d| { calls += 1; right = resolves_to(&p, d); });
    assert!(calls == 1, "C02.get_default.calls_f_exactly_once");
    assert!(right, "C02.get_default.hands_out_innermost_scope_else_global_else_none");
    assert!(inv_holds(&p), "C02.get_default.preserves_invariant_no_stale_cached_default");
}

#[kani::proof]
#[kani::unwind(3)]
#[kani::stub(core::fmt::Formatter::pad, pad_stub)]
fn c02_get_current_from_any_state() {
    let p = arbitrary_state();
    let mut calls = 0u8;
    let r = get_current(|d| { calls += 1; resolves_to(&p, d) });
    assert!(calls == 1 && r == Some(true), "C02.get_current.hands_out_innermost_scope_else_global_else_none");
    assert!(inv_holds(&p), "C02.get_current.preserves_invariant_no_stale_cached_default");
}

#[kani::proof]
#[kani::unwind(3)]
#[kani::stub(core::fmt::Formatter::pad, pad_stub)]
fn c02_scope_installs_and_restores() {
    let p = arbitrary_state();
    let d2 = mk(2);
    {
        let _guard = set_default(&d2);
        assert!(SCOPED_COUNT.load(Ordering::SeqCst) == p.count0 + 1, "C02.set_default.counts_the_scope");
        assert!(has_been_set(), "C02.set_default.marks_exists");
        let mut ok = false; let mut calls = 0u8;
        get_default(|d| { calls += 1; ok = same(d, &d2); });
        assert!(calls == 1 && ok, "C02.set_default.innermost_scope_is_current");
    } // guard dropped (also what unwinding does)
    assert!(inv_holds(&p), "C02.guard_drop.restores_invariant_state_and_count");
    let mut ok = false;
    get_default(|d| { ok = resolves_to(&p, d); });
    assert!(ok, "C02.guard_drop.restores_the_enclosing_default");
    assert!(inv_holds(&p), "C02.guard_drop.then_get_default_preserves_invariant");
}

// "restored on panic": unwinding runs the very same `Drop for DefaultGuard`; Kani does not unwind, so the one thing
// that drop could observe about a panic - `std::thread::panicking()` - is replaced by an unconstrained answer. The
// scope must be closed and the enclosing default restored whichever it is.
fn panicking_stub() -> bool { nd() }
#[kani::proof]
#[kani::unwind(3)]
#[kani::stub(core::fmt::Formatter::pad, pad_stub)]
#[kani::stub(std::thread::panicking, panicking_stub)]
fn c02_guard_drop_restores_the_enclosing_default_also_while_unwinding() {
    let p = arbitrary_state();
    let d2 = mk(2); let d3 = mk(3);
    let nested: bool = nd();
    {
        let _g2 = set_default(&d2);
        if nested {
            { let _g3 = set_default(&d3); }
            let mut ok = false;
            get_default(|d| { ok = same(d, &d2); });
            assert!(ok, "C02.guard_drop.while_unwinding.outer_scope_is_current_again");
        }
    }
    assert!(inv_holds(&p), "C02.guard_drop.while_unwinding.restores_invariant_state_and_count");
    let mut ok = false;
    get_default(|d| { ok = resolves_to(&p, d); });
    assert!(ok, "C02.guard_drop.while_unwinding.restores_the_enclosing_default");
}

#[kani::proof]
#[kani::unwind(3)]
#[kani::stub(core::fmt::Formatter::pad, pad_stub)]
fn c02_nested_scopes_unwind_lifo() {
    let p = arbitrary_state();
    let d2 = mk(2); let d3 = mk(3);
    let g2 = set_default(&d2);
    let g3 = set_default(&d3);
    let mut ok = false;
    get_default(|d| { ok = same(d, &d3); });
    assert!(ok, "C02.nested.inner_scope_is_current");
    drop(g3);
    get_default(|d| { ok = same(d, &d2); });
    assert!(ok, "C02.nested.after_inner_drop_outer_scope_is_current");
    assert!(SCOPED_COUNT.load(Ordering::SeqCst) == p.count0 + 1, "C02.nested.count_after_inner_drop");
    drop(g2);
    get_default(|d| { ok = resolves_to(&p, d); });
    assert!(ok, "C02.nested.after_both_drops_enclosing_default_is_current");
    assert!(inv_holds(&p), "C02.nested.invariant_restored");
}

#[kani::proof]
#[kani::unwind(3)]
#[kani::stub(core::fmt::Formatter::pad, pad_stub)]
fn c02_with_default_is_a_scope() {
    let p = arbitrary_state();
    let d2 = mk(2);
    let v: u8 = nd();
    let r = with_default(&d2, || { let mut ok = false; get_default(|d| ok = same(d, &d2)); (ok, v) });
    assert!(r.0, "C02.with_default.closure_runs_under_the_given_dispatch");
    assert!(r.1 == v, "C02.with_default.returns_closure_value");
    assert!(inv_holds(&p), "C02.with_default.restores_invariant_state");
}

#[kani::proof]
#[kani::unwind(3)]
#[kani::stub(core::fmt::Formatter::pad, pad_stub)]
fn c02_set_global_default_exactly_once() {
    let p = arbitrary_state();
    let h = mk(2);
    let r = set_global_default(h.clone());
    if p.g_set {
        assert!(r.is_err(), "C02.set_global_default.second_call_fails");
        assert!(same(get_global(), &p.g), "C02.set_global_default.failed_call_changes_nothing");
        assert!(inv_holds(&p), "C02.set_global_default.failed_call_preserves_invariant");
    } else {
        assert!(r.is_ok(), "C02.set_global_default.first_call_succeeds");
        assert!(same(get_global(), &h), "C02.set_global_default.global_is_the_given_dispatch");
        assert!(has_been_set(), "C02.set_global_default.marks_exists");
        // the thread now resolves to: its scope if any, else the new global — even if it looked at its default before
        let p2 = Pre { g_set: true, scoped: p.scoped, g: h.clone(), d1: p.d1.clone(), count0: p.count0 };
        let mut ok = false;
        get_default(|d| { ok = resolves_to(&p2, d); });
        assert!(ok, "C02.set_global_default.visible_to_a_thread_without_scope_whatever_it_did_before");
        assert!(set_global_default(mk(3)).is_err(), "C02.set_global_default.third_call_fails");
    }
}

// The history behind finding F1, concretely: a scope is opened and closed (or an emission takes the slow path)
// BEFORE the global default exists; afterwards the global default is set; then an emission happens while some other
// thread holds a scope (SCOPED_COUNT > 0). It must reach the global default.
#[kani::proof]
#[kani::unwind(3)]
#[kani::stub(core::fmt::Formatter::pad, pad_stub)]
fn c02_history_scope_before_global_then_emit() {
    let d1 = mk(1); let g = mk(0);
    let early_slow_path: bool = nd();
    if early_slow_path {
        SCOPED_COUNT.fetch_add(1, Ordering::SeqCst);           // another thread's scope
        get_default(|d| { assert!(is_noop(d), "C02.history.no_default_yet"); });
        SCOPED_COUNT.fetch_sub(1, Ordering::SeqCst);
    } else {
        let _s = set_default(&d1);
    }
    assert!(set_global_default(g.clone()).is_ok(), "C02.history.global_set_once");
    let others: bool = nd();
    if others { SCOPED_COUNT.fetch_add(1, Ordering::SeqCst); }  // only the counter is shared with other threads
    let mut hit = false;
    get_default(|d| { hit = same(d, &g); });
    assert!(hit, "C02.history.emission_reaches_the_global_default");
}
