use vstd::prelude::*;
verus! {
// ---- C07 lemma layer (pure Verus). The per-thread bitmap m : u64 (bit k set = per-layer filter k rejected the
// emission in flight). The two transformers below are the frame contracts that Kani discharges on the real code:
//   Filtered::enabled      = rec(m, k, verdict_k)   (c07_filtered_enabled_records_own_verdict_only)
//   Filtered::on_event / on_new_span = deliver iff bit k clear, then clear bit k
//                                       (c07_filtered_on_event_and_new_span_consume_own_bit)
// and FilterMap::set / is_enabled are exactly these bit operations (c07_filtermap_set_touches_only_own_bit).
spec fn bit(k: u64) -> u64 { 1u64 << k }
spec fn accepted(m: u64, k: u64) -> bool { m & bit(k) == 0 }
spec fn rec(m: u64, k: u64, verdict: bool) -> u64 { if verdict { m & !bit(k) } else { m | bit(k) } }
spec fn consume(m: u64, k: u64) -> u64 { m & !bit(k) }

proof fn rec_own(m: u64, k: u64, v: bool)
    requires k < 64
    ensures accepted(rec(m, k, v), k) == v
{
    assert(((m & !(1u64 << k)) & (1u64 << k)) == 0) by(bit_vector) requires k < 64;
    assert(((m | (1u64 << k)) & (1u64 << k)) != 0) by(bit_vector) requires k < 64;
}
proof fn rec_frame(m: u64, k: u64, j: u64, v: bool)
    requires k < 64, j < 64, j != k
    ensures accepted(rec(m, k, v), j) == accepted(m, j)
{
    assert(((m & !(1u64 << k)) & (1u64 << j)) == (m & (1u64 << j))) by(bit_vector) requires k < 64, j < 64, j != k;
    assert(((m | (1u64 << k)) & (1u64 << j)) == (m & (1u64 << j))) by(bit_vector) requires k < 64, j < 64, j != k;
}
proof fn consume_own_and_frame(m: u64, k: u64, j: u64)
    requires k < 64, j < 64
    ensures accepted(consume(m, k), k), j != k ==> accepted(consume(m, k), j) == accepted(m, j)
{
    assert(((m & !(1u64 << k)) & (1u64 << k)) == 0) by(bit_vector) requires k < 64;
    if j != k { assert(((m & !(1u64 << k)) & (1u64 << j)) == (m & (1u64 << j))) by(bit_vector) requires k < 64, j < 64, j != k; }
}

// ---- the enabled pass over a stack of n <= 64 per-layer-filtered layers (filter ids 0..n-1), in ANY order of
// evaluation given by the permutation-free sequence `order` of distinct ids; verdicts[k] is filter k's own verdict.
spec fn enabled_pass(m: u64, order: Seq<u64>, verdicts: Seq<bool>) -> u64
    decreases order.len()
{
    if order.len() == 0 { m } else { rec(enabled_pass(m, order.drop_last(), verdicts), order.last(), verdicts[order.last() as int]) }
}
spec fn distinct(order: Seq<u64>) -> bool { forall|a: int, b: int| 0 <= a < b < order.len() ==> order[a] != order[b] }

// after the pass, the bit of every filter that took part is exactly ITS OWN verdict - whatever the other filters said,
// whatever the order, whatever was in the bitmap before (a leftover of an earlier probe is overwritten)
proof fn enabled_pass_isolates(m: u64, order: Seq<u64>, verdicts: Seq<bool>, k: u64)
    requires
        distinct(order), order.contains(k),
        forall|i: int| 0 <= i < order.len() ==> order[i] < 64 && (order[i] as int) < verdicts.len(),
    ensures accepted(enabled_pass(m, order, verdicts), k) == verdicts[k as int]
    decreases order.len()
{
    let last = order.last();
    let before = enabled_pass(m, order.drop_last(), verdicts);
    if last == k {
        rec_own(before, k, verdicts[k as int]);
    } else {
        let idx = choose|i: int| 0 <= i < order.len() && order[i] == k;
        assert(idx < order.len() - 1);
        assert(order.drop_last()[idx] == k);
        assert(distinct(order.drop_last())) by {
            assert forall|a: int, b: int| 0 <= a < b < order.drop_last().len() implies order.drop_last()[a] != order.drop_last()[b] by {
                assert(order.drop_last()[a] == order[a] && order.drop_last()[b] == order[b]);
            }
        }
        assert forall|i: int| 0 <= i < order.drop_last().len() implies order.drop_last()[i] < 64 && (order.drop_last()[i] as int) < verdicts.len() by {
            assert(order.drop_last()[i] == order[i]);
        }
        enabled_pass_isolates(m, order.drop_last(), verdicts, k);
        rec_frame(before, last, k, verdicts[last as int]);
    }
}
// a filter that does NOT take part in the pass keeps its bit (frame of the whole pass)
proof fn enabled_pass_frame(m: u64, order: Seq<u64>, verdicts: Seq<bool>, j: u64)
    requires
        j < 64, !order.contains(j),
        forall|i: int| 0 <= i < order.len() ==> order[i] < 64 && (order[i] as int) < verdicts.len(),
    ensures accepted(enabled_pass(m, order, verdicts), j) == accepted(m, j)
    decreases order.len()
{
    if order.len() > 0 {
        let last = order.last();
        assert(order[order.len() - 1] == last);
        assert(last != j);
        assert(!order.drop_last().contains(j)) by {
            if order.drop_last().contains(j) {
                let i = choose|i: int| 0 <= i < order.drop_last().len() && order.drop_last()[i] == j;
                assert(order[i] == j);
            }
        }
        assert forall|i: int| 0 <= i < order.drop_last().len() implies order.drop_last()[i] < 64 && (order.drop_last()[i] as int) < verdicts.len() by {
            assert(order.drop_last()[i] == order[i]);
        }
        enabled_pass_frame(m, order.drop_last(), verdicts, j);
        rec_frame(enabled_pass(m, order.drop_last(), verdicts), last, j, verdicts[last as int]);
    }
}

// ---- the delivery pass: every layer consumes its own bit
spec fn delivery_pass(m: u64, order: Seq<u64>) -> u64 decreases order.len() {
    if order.len() == 0 { m } else { consume(delivery_pass(m, order.drop_last()), order.last()) }
}
proof fn delivery_pass_clears(m: u64, order: Seq<u64>, k: u64)
    requires k < 64, forall|i: int| 0 <= i < order.len() ==> order[i] < 64,
    ensures order.contains(k) ==> accepted(delivery_pass(m, order), k), !order.contains(k) ==> accepted(delivery_pass(m, order), k) == accepted(m, k)
    decreases order.len()
{
    if order.len() > 0 {
        let last = order.last();
        assert(order[order.len() - 1] == last);
        assert forall|i: int| 0 <= i < order.drop_last().len() implies order.drop_last()[i] < 64 by { assert(order.drop_last()[i] == order[i]); }
        delivery_pass_clears(m, order.drop_last(), k);
        consume_own_and_frame(delivery_pass(m, order.drop_last()), last, k);
        if last != k && order.contains(k) {
            let i = choose|i: int| 0 <= i < order.len() && order[i] == k;
            assert(i < order.len() - 1);
            assert(order.drop_last()[i] == k);
        }
        if !order.contains(k) {
            assert(!order.drop_last().contains(k)) by {
                if order.drop_last().contains(k) { let i = choose|i: int| 0 <= i < order.drop_last().len() && order.drop_last()[i] == k; assert(order[i] == k); }
            }
        }
    }
}
// I7 re-established: if nothing outside the stack's filters was set before, a complete emission (enabled pass followed
// by the delivery pass over the same filters) leaves every bit clear
proof fn complete_emission_restores_i7(m: u64, order: Seq<u64>, verdicts: Seq<bool>, k: u64)
    requires
        k < 64, distinct(order),
        forall|i: int| 0 <= i < order.len() ==> order[i] < 64 && (order[i] as int) < verdicts.len(),
        !order.contains(k) ==> accepted(m, k),
    ensures accepted(delivery_pass(enabled_pass(m, order, verdicts), order), k)
{
    delivery_pass_clears(enabled_pass(m, order, verdicts), order, k);
    if !order.contains(k) { enabled_pass_frame(m, order, verdicts, k); }
}
} // verus!
fn main() {}
