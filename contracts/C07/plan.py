PSF = "tracing-subscriber/src/filter/subscriber_filters/mod.rs"
CTX_HELPER = '''
#[cfg(kani)]
impl<'a, C: Collect> Context<'a, C> {
    /// verification-only: lets harness modules outside `subscribe` build the same Context a `Layered` builds
    pub(crate) fn __verif_new(collector: &'a C) -> Self { Self::new(collector) }
}
'''
FMAP_HELPER = '''
#[cfg(kani)]
impl FilterMap {
    /// verification-only: a FilterMap with arbitrary bits (what DataInner.filter_map may hold)
    pub(crate) fn __verif_from_bits(bits: u64) -> Self { Self { bits } }
    pub(crate) fn __verif_bits(self) -> u64 { self.bits }
}
'''
SUB_APPENDS = [
    dict(file="tracing-subscriber/src/subscribe/context.rs", text=CTX_HELPER, kind="cfg(kani) constructor helper"),
    dict(file="tracing-subscriber/src/filter/subscriber_filters/mod.rs", text=FMAP_HELPER, kind="cfg(kani) constructor helper"),
]
PLAN = dict(
    id="C07", level="proof", explanation="x",
    kani=[dict(
        crate="tracing-subscriber", tls_shim_crates=["tracing-core", "tracing-subscriber"], once_cell_stub=True,
        modules=[dict(name="__verif_c07", attach="inline", file=PSF, modpath="filter::subscriber_filters",
                      files=["../common/sub_prelude.rs", "psf.kani.rs"])],
        append=SUB_APPENDS,
    )],
    manifest=dict(technique="x", text="x", note="x"),
)
