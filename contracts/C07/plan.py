PSF = "tracing-subscriber/src/filter/subscriber_filters/mod.rs"
CTX_HELPER = '''
#[cfg(kani)]
impl<'a, C: Collect> Context<'a, C> {
    /// verification-only: lets harness modules outside `subscribe` build the same Context a `Layered` builds
    pub(crate) fn __verif_new(collector: &'a C) -> Self { Self::new(collector) }
}
'''
FMAP_HELPER = '''
#[cfg(kani)]
impl FilterMap {
    /// verification-only: a FilterMap with arbitrary bits (what DataInner.filter_map may hold)
    pub(crate) fn __verif_from_bits(bits: u64) -> Self { Self { bits } }
    pub(crate) fn __verif_bits(self) -> u64 { self.bits }
}
'''
SUB_APPENDS = [
    dict(file="tracing-subscriber/src/subscribe/context.rs", text=CTX_HELPER, kind="cfg(kani) constructor helper"),
    dict(file="tracing-subscriber/src/filter/subscriber_filters/mod.rs", text=FMAP_HELPER, kind="cfg(kani) constructor helper"),
]
import os
def build_isolation(ex):
    return open(os.path.join(os.path.dirname(os.path.abspath(__file__)), "lemma_c07.verus.rs")).read()


PLAN = dict(
    id="C07", api_files=['tracing-subscriber/src/filter/subscriber_filters/mod.rs'], level="proof", explanation="Per-layer filter isolation as frame conditions on the per-thread bitmap: FilterMap/FilterId bit algebra over the full u64 domain; FilterState::{set, and, did_enable, add_interest} as exact state transformers from an arbitrary bitmap; every Filtered callback (enabled, event_enabled, on_event, on_new_span, on_enter/exit/close/record/id_change, on_follows_from, register_callsite) touches only its own bit, calls the wrapped layer iff its own filter accepted (for span lifecycle: iff the span's stored map has its bit clear) and never vetoes for others - each proved loop-free from an arbitrary thread bitmap and an arbitrary filter id (0..62) with symbolic filters. Two whole-emission harnesses through a real Layered stack (two Filtered layers; Filtered + global layer) show layer i receives iff its own (and the global) filter accepts and the bitmap is empty again (I7). A Verus lemma layer (lemma_c07.verus.rs, bit_vector) lifts the per-callback frame contracts to any stack of up to 64 per-layer filters evaluated in any order: after the enabled pass the bit of filter k is exactly filter k's own verdict (whatever the others said and whatever was left in the bitmap), and a complete emission clears every bit again. The probe obligation (enabled without dispatch) is known finding F3.",
    functions_under_contract=['tracing-subscriber/src/filter/subscriber_filters/mod.rs: FilterMap::{set,is_enabled,any_enabled}, FilterId::{new,and,none,disabled}, FilterState::{set,and,did_enable,add_interest,take_interest,event_enabled,clear_enabled}, impl Subscribe for Filtered (all callbacks)', 'subscribe/context.rs: Context::{with_filter,is_enabled_for,if_enabled_for,span}; registry/mod.rs SpanRef::try_with_filter', 'subscribe/layered.rs: Layered::{enabled,event_enabled,event} on the emission path'],
    trusted_base=["Kani 0.68 / CBMC 6.11 / CaDiCaL; Kani's std build (nightly-2026-08-21), not the repo toolchain's", 'core::fmt::Formatter::pad stubbed to Ok(()) with -Z stubbing (panic-message formatting on infeasible error branches; no harness that uses it reads formatted text)', 'sharded_slab::Pool::clear stubbed (Layered::try_close mentions Registry; never called by these harnesses)', 'thread_local! shim: FILTERING is one static'],
    assumptions=["the root collector is a stub that implements LookupSpan over a symbolic span table and mirrors the three FilterState-facing lines of the real Registry (enabled/event_enabled = FilterState::event_enabled, register_callsite = take_interest); the real Registry (sharded_slab pool) is out of Kani's reach", 'two stacks on two threads: per-thread state, frame assumption'],
    not_covered=['Scope iteration / lookup_current filtering (C06)', 'more than two layers in the whole-emission harnesses (the per-callback frame conditions are for an arbitrary filter id)'],
    verus=[dict(name="isolation", builder="build_isolation",
                obligations=["rec_own", "rec_frame", "consume_own_and_frame", "enabled_pass_isolates", "enabled_pass_frame", "delivery_pass_clears", "complete_emission_restores_i7"])],
    kani=[dict(
        crate="tracing-subscriber", tls_shim_crates=["tracing-core", "tracing-subscriber"], once_cell_stub=True,
        modules=[dict(name="__verif_c07", attach="inline", file=PSF, modpath="filter::subscriber_filters",
                      files=["../common/sub_prelude.rs", "psf.kani.rs"])],
        append=SUB_APPENDS,
    )],
    manifest=dict(technique='frame conditions on the real Filtered/FilterState code from an arbitrary per-thread bitmap (Kani, loop-free, full u64 domain) + whole-emission harnesses through real Layered stacks',
        text="Each per-layer-filter operation is proved on the real code, for every bitmap and every filter id, to change only its own bit and to call its layer iff its own filter accepted; complete emissions through real Layered stacks restore the empty bitmap. So a layer's deliveries depend on its own and the global filters only, for any stack and history that ends every emission - except after an enabled-probe without dispatch, which is known finding F3.",
        note="Trusted: Kani/CBMC, TLS shim, Pool::clear and Formatter::pad stubs. Assumed: the stub root mirrors the Registry's three FilterState calls; per-thread independence. Known finding F3 (probe leaves a bit set).",
        design_ref="DESIGN.md section 4, C07"),
)
