// C07 — per-layer filters are isolated. Appended to filter/subscriber_filters/mod.rs: FilterMap, FilterId,
// FilterState, FILTERING, Filtered and its private helpers are the real ones.

// ---------- bit algebra over the full u64 domain
#[kani::proof]
fn c07_filtermap_set_touches_only_own_bit() {
    let bits: u64 = nd(); let k: u8 = nd(); kani::assume(k < 64); let e: bool = nd();
    let id = FilterId::new(k);
    let m = FilterMap { bits };
    let m2 = m.set(id, e);
    assert!(m2.is_enabled(id) == e, "C07.FilterMap.set.own_bit_is_the_verdict");
    assert!((m2.bits ^ m.bits) & !(1u64 << k) == 0, "C07.FilterMap.set.no_other_bit_changes");
    assert!(m.is_enabled(id) == ((bits >> k) & 1 == 0), "C07.FilterMap.is_enabled.reads_own_bit");
    assert!(m.set(FilterId::disabled(), e) == m, "C07.FilterMap.set.disabled_id_is_neutral");
    assert!(m.any_enabled() == (bits != u64::MAX), "C07.FilterMap.any_enabled");
    let j: u8 = nd(); kani::assume(j < 64 && j != k);
    assert!(m2.is_enabled(FilterId::new(j)) == m.is_enabled(FilterId::new(j)), "C07.FilterMap.set.other_filters_verdict_unchanged");
}
#[kani::proof]
fn c07_filterid_and_is_union() {
    let k: u8 = nd(); let j: u8 = nd(); kani::assume(k < 64 && j < 64);
    let a = FilterId::new(k); let b = FilterId::new(j);
    assert!(a.and(b).0 == (1u64 << k) | (1u64 << j), "C07.FilterId.and.union");
    assert!(FilterId::disabled().and(b).0 == b.0, "C07.FilterId.and.disabled_is_neutral");
    assert!(FilterId::none().and(b).0 == b.0, "C07.FilterId.and.none_is_neutral");
    let bits: u64 = nd();
    let m = FilterMap { bits };
    assert!(m.is_enabled(a.and(b)) == (m.is_enabled(a) && m.is_enabled(b)), "C07.FilterId.and.span_visible_iff_enabled_for_every_member");
}

// ---------- FilterState as a state transformer (local instance, arbitrary pre-state; debug counters mid-pass)
fn state(bits: u64, interest: u8) -> FilterState {
    let s = FilterState::new();
    s.enabled.set(FilterMap { bits });
    *s.interest.borrow_mut() = if interest <= 2 { Some(vinterest_of(interest)) } else { None };
    #[cfg(debug_assertions)]
    { s.counters.in_filter_pass.set(8); s.counters.in_interest_pass.set(if interest <= 2 { 1 } else { 0 }); }
    s
}
#[kani::proof]
#[kani::stub(core::fmt::Formatter::pad, pad_stub)]
fn c07_filterstate_set_and_did_enable() {
    let bits: u64 = nd(); let k: u8 = nd(); kani::assume(k < 64); let e: bool = nd();
    let id = FilterId::new(k); let others = !(1u64 << k);
    let s = state(bits, 3);
    s.set(id, e);
    assert!(s.enabled.get().bits == (bits & others) | (if e { 0 } else { 1u64 << k }), "C07.FilterState.set.own_bit_only");
    let mut ran = false;
    s.did_enable(id, || ran = true);
    assert!(ran == e, "C07.FilterState.did_enable.runs_callback_iff_own_bit_clear");
    assert!(s.enabled.get().bits == bits & others, "C07.FilterState.did_enable.consumes_own_bit_leaves_others");
}
#[kani::proof]
#[kani::stub(core::fmt::Formatter::pad, pad_stub)]
fn c07_filterstate_and_refines_own_bit() {
    let bits: u64 = nd(); let k: u8 = nd(); kani::assume(k < 64); let e: bool = nd();
    let id = FilterId::new(k);
    let s = state(bits, 3);
    let mut asked = false;
    let r = s.and(id, || { asked = true; e });
    let was = (bits >> k) & 1 == 0;
    assert!(asked == was, "C07.FilterState.and.asks_filter_only_if_not_already_rejected");
    assert!(r == (was && e), "C07.FilterState.and.result_is_conjunction");
    assert!(s.enabled.get().bits == (bits & !(1u64 << k)) | (if r { 0 } else { 1u64 << k }), "C07.FilterState.and.own_bit_only");
}
#[kani::proof]
#[kani::stub(core::fmt::Formatter::pad, pad_stub)]
fn c07_filterstate_interest_is_agree_or_sometimes() {
    let a: u8 = nd(); let b: u8 = nd(); let c: u8 = nd(); kani::assume(a <= 2 && b <= 2 && c <= 2);
    let s = state(0, 3);
    s.add_interest(vinterest_of(a)); s.add_interest(vinterest_of(b)); s.add_interest(vinterest_of(c));
    let want = if a == b && b == c { a } else { 1 };
    let got = s.interest.borrow_mut().take();
    assert!(got.is_some() && vicode(got.as_ref().unwrap()) == want, "C07.FilterState.add_interest.fold_is_common_answer_or_sometimes");
}

// ---------- Filtered callbacks: own bit, frame, inner called iff accepted
fn any_root() -> VRoot {
    let mut r = VRoot::empty();
    r.next_filter = nd(); kani::assume(r.next_filter < 63);
    r.exists[1] = true; r.bits[1] = nd(); r.exists[2] = true; r.bits[2] = nd();
    r
}
fn thread_state(bits: u64) {
    FILTERING.with(|s| { s.enabled.set(FilterMap { bits });
        #[cfg(debug_assertions)] { s.counters.in_filter_pass.set(8); s.counters.in_interest_pass.set(0); } });
}
fn thread_bits() -> u64 { FILTERING.with(|s| s.enabled.get().bits) }

#[kani::proof]
#[kani::unwind(4)]
#[kani::stub(core::fmt::Formatter::pad, pad_stub)]
fn c07_filtered_enabled_records_own_verdict_only() {
    let mut root = any_root();
    let f = VFil::any(); let inner_global: bool = nd();
    let mut layer = Filtered::new(VRec { i: 0, global_enabled: inner_global, interest: 2, hint: 6 }, f);
    let k = root.next_filter;
    Subscribe::<VRoot>::on_subscribe(&mut layer, &mut root);
    let bits: u64 = nd();
    thread_state(bits);
    let got = Subscribe::<VRoot>::enabled(&layer, &VMETA, Context::__verif_new(&root));
    let now = thread_bits();
    assert!((now ^ bits) & !(1u64 << k) == 0, "C07.Filtered.enabled.frame_no_other_filters_bit_changes");
    assert!(((now >> k) & 1 == 0) == f.enabled, "C07.Filtered.enabled.own_bit_is_own_verdict");
    assert!(vseen(0, VK_ENABLED) == f.enabled as usize, "C07.Filtered.enabled.wrapped_layer_asked_iff_filter_accepts");
    assert!(got == if f.enabled { inner_global } else { true }, "C07.Filtered.enabled.never_vetoes_for_others");
}
#[kani::proof]
#[kani::unwind(4)]
#[kani::stub(core::fmt::Formatter::pad, pad_stub)]
fn c07_filtered_event_enabled_refines_own_bit_only() {
    let mut root = any_root();
    let f = VFil::any();
    let mut layer = Filtered::new(VRec::plain(0), f);
    let k = root.next_filter;
    Subscribe::<VRoot>::on_subscribe(&mut layer, &mut root);
    let bits: u64 = nd(); thread_state(bits);
    let vs = VMETA.fields().value_set(&[]); let ev = Event::new(&VMETA, &vs);
    let got = Subscribe::<VRoot>::event_enabled(&layer, &ev, Context::__verif_new(&root));
    let now = thread_bits();
    let was = (bits >> k) & 1 == 0;
    assert!((now ^ bits) & !(1u64 << k) == 0, "C07.Filtered.event_enabled.frame_no_other_filters_bit_changes");
    assert!(((now >> k) & 1 == 0) == (was && f.ev_enabled), "C07.Filtered.event_enabled.own_bit_is_conjunction");
    assert!(got, "C07.Filtered.event_enabled.never_vetoes_for_others");
}
#[kani::proof]
#[kani::unwind(4)]
#[kani::stub(core::fmt::Formatter::pad, pad_stub)]
fn c07_filtered_on_event_and_new_span_consume_own_bit() {
    let mut root = any_root();
    let mut layer = Filtered::new(VRec::plain(0), VFil::any());
    let k = root.next_filter;
    Subscribe::<VRoot>::on_subscribe(&mut layer, &mut root);
    let bits: u64 = nd(); thread_state(bits);
    let vs = VMETA.fields().value_set(&[]); let ev = Event::new(&VMETA, &vs);
    let is_span: bool = nd();
    if is_span {
        let a = span::Attributes::new(&VMETA_SPAN, &vs);
        Subscribe::<VRoot>::on_new_span(&layer, &a, &span::Id::from_u64(1), Context::__verif_new(&root));
    } else {
        Subscribe::<VRoot>::on_event(&layer, &ev, Context::__verif_new(&root));
    }
    let accepted = (bits >> k) & 1 == 0;
    assert!(vseen(0, if is_span { VK_NEW_SPAN } else { VK_EVENT }) == accepted as usize, "C07.Filtered.delivery.wrapped_layer_called_iff_own_filter_accepted");
    assert!(thread_bits() == bits & !(1u64 << k), "C07.Filtered.delivery.own_bit_cleared_others_untouched");
}
#[kani::proof]
#[kani::unwind(4)]
#[kani::stub(core::fmt::Formatter::pad, pad_stub)]
fn c07_filtered_span_lifecycle_follows_stored_verdict() {
    let mut root = any_root();
    let mut layer = Filtered::new(VRec::plain(0), VFil::any());
    let k = root.next_filter;
    Subscribe::<VRoot>::on_subscribe(&mut layer, &mut root);
    let bits: u64 = nd(); thread_state(bits);
    let id = span::Id::from_u64(1);
    let which: u8 = nd(); kani::assume(which < 5);
    let vs = VMETA.fields().value_set(&[]);
    let kind = match which {
        0 => { Subscribe::<VRoot>::on_enter(&layer, &id, Context::__verif_new(&root)); VK_ENTER }
        1 => { Subscribe::<VRoot>::on_exit(&layer, &id, Context::__verif_new(&root)); VK_EXIT }
        2 => { Subscribe::<VRoot>::on_close(&layer, id.clone(), Context::__verif_new(&root)); VK_CLOSE }
        3 => { Subscribe::<VRoot>::on_record(&layer, &id, &span::Record::new(&vs), Context::__verif_new(&root)); VK_RECORD }
        _ => { Subscribe::<VRoot>::on_id_change(&layer, &id, &span::Id::from_u64(2), Context::__verif_new(&root)); VK_IDCHANGE }
    };
    let span_accepted = (root.bits[1] >> k) & 1 == 0;
    assert!(vseen(0, kind) == span_accepted as usize, "C07.Filtered.lifecycle.wrapped_layer_notified_iff_this_filter_accepted_the_span");
    assert!(thread_bits() == bits, "C07.Filtered.lifecycle.thread_bitmap_untouched");
}
#[kani::proof]
#[kani::unwind(4)]
#[kani::stub(core::fmt::Formatter::pad, pad_stub)]
fn c07_filtered_follows_from_needs_both_spans() {
    let mut root = any_root();
    let mut layer = Filtered::new(VRec::plain(0), VFil::any());
    let k = root.next_filter;
    Subscribe::<VRoot>::on_subscribe(&mut layer, &mut root);
    Subscribe::<VRoot>::on_follows_from(&layer, &span::Id::from_u64(1), &span::Id::from_u64(2), Context::__verif_new(&root));
    let both = (root.bits[1] >> k) & 1 == 0 && (root.bits[2] >> k) & 1 == 0;
    assert!(vseen(0, VK_FOLLOWS) == both as usize, "C07.Filtered.follows_from.only_if_both_spans_accepted");
}
#[kani::proof]
#[kani::unwind(4)]
#[kani::stub(core::fmt::Formatter::pad, pad_stub)]
fn c07_filtered_register_callsite_adds_own_interest() {
    let mut root = any_root();
    let f = VFil::any();
    let mut layer = Filtered::new(VRec::plain(0), f);
    Subscribe::<VRoot>::on_subscribe(&mut layer, &mut root);
    let got = Subscribe::<VRoot>::register_callsite(&layer, &VMETA);
    assert!(got.is_always(), "C07.Filtered.register_callsite.never_short_circuits_the_stack");
    assert!(vseen(0, VK_REGISTER) == (f.interest != 0) as usize, "C07.Filtered.register_callsite.wrapped_layer_registered_unless_filter_says_never");
    let pending = FilterState::take_interest();
    assert!(pending.is_some() && vicode(pending.as_ref().unwrap()) == f.interest, "C07.Filtered.register_callsite.pending_interest_is_own_filters");
}

// A layer whose filter is a combinator: what Filtered caches for the callsite (the interest it leaves pending for the
// stack) may only settle what the parts settle. `always` means the stack never asks the filter again for this callsite,
// so the combined filter must then accept whatever its dynamic parts answer; `never` means it must reject. Each part is
// assumed sound on its own (never => rejects, always => accepts); the parts' dynamic answers are arbitrary otherwise.
fn part_sound(f: &VFil) -> bool { (f.interest != 0 || !f.enabled) && (f.interest != 2 || (f.enabled && f.ev_enabled)) }
fn combinator_body<F: subscribe::Filter<VRoot> + 'static>(fil: F) -> (u8, bool, bool) {
    let mut root = any_root();
    let mut layer = Filtered::new(VRec::plain(0), fil);
    Subscribe::<VRoot>::on_subscribe(&mut layer, &mut root);
    let got = Subscribe::<VRoot>::register_callsite(&layer, &VMETA);
    assert!(got.is_always(), "C07.Filtered.register_callsite.never_short_circuits_the_stack");
    let pending = FilterState::take_interest();
    assert!(pending.is_some(), "C07.Filtered.register_callsite.leaves_its_interest_pending");
    let cx = Context::__verif_new(&root);
    let vs = VMETA.fields().value_set(&[]); let e = Event::new(&VMETA, &vs);
    let en = subscribe::Filter::<VRoot>::enabled(&layer.filter, &VMETA, &cx);
    let ev = subscribe::Filter::<VRoot>::event_enabled(&layer.filter, &e, &cx);
    let i = vicode(pending.as_ref().unwrap());
    core::mem::forget(layer);
    (i, en, ev)
}
#[kani::proof]
#[kani::unwind(4)]
#[kani::stub(core::fmt::Formatter::pad, pad_stub)]
fn c07_filtered_with_a_combinator_filter_caches_only_what_its_parts_settle() {
    use crate::filter::FilterExt as _;
    let a = VFil::any(); let b = VFil::any();
    kani::assume(part_sound(&a) && part_sound(&b));
    let which: u8 = nd(); kani::assume(which < 3);
    let (i, en, ev) = match which {
        0 => { let r = combinator_body(a.and(b)); assert!(r.1 == (a.enabled && b.enabled), "C07.And.accepts_iff_both_parts_accept"); r }
        1 => { let r = combinator_body(a.or(b)); assert!(r.1 == (a.enabled || b.enabled), "C07.Or.accepts_iff_a_part_accepts"); r }
        _ => { let r = combinator_body(a.not()); assert!(r.1 == !a.enabled, "C07.Not.accepts_iff_the_part_rejects"); r }
    };
    assert!(i != 2 || (en && ev), "C07.combinator.cached_always_only_if_no_dynamic_part_can_still_reject");
    assert!(i != 0 || !en, "C07.combinator.cached_never_only_if_no_dynamic_part_can_still_accept");
    kani::cover!(which == 0 && a.interest == 2 && b.interest == 1 && !b.enabled, "C07.reachable.static_and_dynamic");
}

// ---------- whole emission through a real Layered stack of two Filtered layers over the stub root
macro_rules! two_layer_stack {
    ($fa:expr, $fb:expr) => { VRoot::empty().with(VRec::plain(0).with_filter($fa)).with(VRec::plain(1).with_filter($fb)) };
}
fn emit_event<C: Collect>(stack: &C) {
    let vs = VMETA.fields().value_set(&[]); let ev = Event::new(&VMETA, &vs);
    if Collect::enabled(stack, &VMETA) { if Collect::event_enabled(stack, &ev) { Collect::event(stack, &ev); } }
}
#[kani::proof]
#[kani::unwind(4)]
#[kani::stub(core::fmt::Formatter::pad, pad_stub)]
#[kani::stub(sharded_slab::Pool::clear, stub_pool_clear)]
fn c07_stack_isolation_and_invariant_restored() {
    let fa = VFil::any(); let fb = VFil::any();
    let stack = two_layer_stack!(fa, fb);
    emit_event(&stack);
    assert!(vseen(0, VK_EVENT) == (fa.enabled && fa.ev_enabled) as usize, "C07.stack.layer_a_receives_iff_its_own_filter_accepts");
    assert!(vseen(1, VK_EVENT) == (fb.enabled && fb.ev_enabled) as usize, "C07.stack.layer_b_receives_iff_its_own_filter_accepts");
    assert!(thread_bits() == 0, "C07.stack.I7_bitmap_empty_after_a_complete_emission");
    // a second emission is decided the same way (nothing left over from the first)
    emit_event(&stack);
    assert!(vseen(0, VK_EVENT) == 2 * (fa.enabled && fa.ev_enabled) as usize, "C07.stack.second_emission_layer_a");
    assert!(vseen(1, VK_EVENT) == 2 * (fb.enabled && fb.ev_enabled) as usize, "C07.stack.second_emission_layer_b");
}
#[kani::proof]
#[kani::unwind(4)]
#[kani::stub(core::fmt::Formatter::pad, pad_stub)]
#[kani::stub(sharded_slab::Pool::clear, stub_pool_clear)]
fn c07_stack_global_filter_vetoes_for_all() {
    let fa = VFil::any(); let g: bool = nd();
    // a plain (global) layer on top that vetoes or not
    let stack = VRoot::empty().with(VRec::plain(0).with_filter(fa)).with(VRec { i: 1, global_enabled: g, interest: 2, hint: 6 });
    emit_event(&stack);
    assert!(vseen(0, VK_EVENT) == (g && fa.enabled && fa.ev_enabled) as usize, "C07.stack.filtered_layer_receives_iff_global_and_own_filter_accept");
    assert!(vseen(1, VK_EVENT) == (g && fa.enabled && fa.ev_enabled) as usize || vseen(1, VK_EVENT) == g as usize, "C07.stack.plain_layer");
    assert!(thread_bits() == 0, "C07.stack.I7_bitmap_empty_after_veto_or_delivery");
}
// Known finding F3: an `enabled` probe that is not followed by a dispatch (tracing::enabled!, log_enabled!)
// leaves the rejecting filter's bit set on the thread.
#[kani::proof]
#[kani::unwind(4)]
#[kani::stub(core::fmt::Formatter::pad, pad_stub)]
#[kani::stub(sharded_slab::Pool::clear, stub_pool_clear)]
fn c07_probe_restores_invariant_known() {
    let fa: bool = nd(); let fb: bool = nd();
    let stack = two_layer_stack!(VFil::accept(fa), VFil::accept(fb));
    let _ = Collect::enabled(&stack, &VMETA);
    assert!(thread_bits() == 0, "C07.probe.enabled_without_dispatch_leaves_bitmap_as_found");
}

// ---------- the Context a Filtered layer hands to its wrapped layer carries the layer's own filter id:
// a span this filter rejected is invisible to the wrapped layer in EVERY callback (lookup, scope, parent)
vstatic!(PROBE_CALLS: VAtomicUsize = VAtomicUsize::new(0));
vstatic!(PROBE_SAW_REJECTED: VAtomicUsize = VAtomicUsize::new(0));
vstatic!(PROBE_SAW_ACCEPTED: VAtomicUsize = VAtomicUsize::new(0));
vstatic!(PROBE_PARENT_OF_3: VAtomicUsize = VAtomicUsize::new(99));
struct VProbe;
fn probe(ctx: &Context<'_, VRoot>) {
    PROBE_CALLS.fetch_add(1, VSeq);
    if ctx.span(&span::Id::from_u64(2)).is_some() { PROBE_SAW_REJECTED.fetch_add(1, VSeq); }
    if ctx.span(&span::Id::from_u64(1)).is_some() { PROBE_SAW_ACCEPTED.fetch_add(1, VSeq); }
    // span 3 is accepted and its parent is the rejected span 2, whose parent is the accepted span 1
    if let Some(s) = ctx.span(&span::Id::from_u64(3)) { PROBE_PARENT_OF_3.store(s.parent().map(|p| p.id().into_u64()).unwrap_or(0) as usize, VSeq); }
}
impl Subscribe<VRoot> for VProbe {
    fn on_new_span(&self, _: &span::Attributes<'_>, _: &span::Id, ctx: Context<'_, VRoot>) { probe(&ctx) }
    fn on_record(&self, _: &span::Id, _: &span::Record<'_>, ctx: Context<'_, VRoot>) { probe(&ctx) }
    fn on_follows_from(&self, _: &span::Id, _: &span::Id, ctx: Context<'_, VRoot>) { probe(&ctx) }
    fn on_event(&self, _: &Event<'_>, ctx: Context<'_, VRoot>) { probe(&ctx) }
    fn on_enter(&self, _: &span::Id, ctx: Context<'_, VRoot>) { probe(&ctx) }
    fn on_exit(&self, _: &span::Id, ctx: Context<'_, VRoot>) { probe(&ctx) }
    fn on_close(&self, _: span::Id, ctx: Context<'_, VRoot>) { probe(&ctx) }
    fn on_id_change(&self, _: &span::Id, _: &span::Id, ctx: Context<'_, VRoot>) { probe(&ctx) }
}
#[kani::proof]
#[kani::unwind(6)]
#[kani::stub(core::fmt::Formatter::pad, pad_stub)]
fn c07_every_callback_hands_the_wrapped_layer_a_filtered_context() {
    let mut root = VRoot::empty();
    root.next_filter = nd(); kani::assume(root.next_filter < 63);
    let k = root.next_filter;
    let other_bits: u64 = nd();
    // span 1: accepted by this filter; span 2: rejected by it; span 3: accepted, child of 2, which is a child of 1
    root.exists[1] = true; root.bits[1] = other_bits & !(1u64 << k);
    root.exists[2] = true; root.bits[2] = other_bits | (1u64 << k); root.parent[2] = 1;
    root.exists[3] = true; root.bits[3] = other_bits & !(1u64 << k); root.parent[3] = 2;
    let mut layer = Filtered::new(VProbe, VFil::any());
    Subscribe::<VRoot>::on_subscribe(&mut layer, &mut root);
    thread_state(0);
    let id = span::Id::from_u64(1);
    let vs = VMETA.fields().value_set(&[]);
    let which: u8 = nd(); kani::assume(which < 8);
    match which {
        0 => { let a = span::Attributes::new(&VMETA_SPAN, &vs); Subscribe::<VRoot>::on_new_span(&layer, &a, &id, Context::__verif_new(&root)) }
        1 => { let ev = Event::new(&VMETA, &vs); Subscribe::<VRoot>::on_event(&layer, &ev, Context::__verif_new(&root)) }
        2 => Subscribe::<VRoot>::on_enter(&layer, &id, Context::__verif_new(&root)),
        3 => Subscribe::<VRoot>::on_exit(&layer, &id, Context::__verif_new(&root)),
        4 => Subscribe::<VRoot>::on_close(&layer, id.clone(), Context::__verif_new(&root)),
        5 => Subscribe::<VRoot>::on_record(&layer, &id, &span::Record::new(&vs), Context::__verif_new(&root)),
        6 => Subscribe::<VRoot>::on_id_change(&layer, &id, &span::Id::from_u64(3), Context::__verif_new(&root)),
        _ => Subscribe::<VRoot>::on_follows_from(&layer, &id, &span::Id::from_u64(3), Context::__verif_new(&root)),
    }
    assert!(PROBE_CALLS.load(VSeq) == 1, "C07.Filtered.context.wrapped_layer_called_once_for_an_accepted_span");
    assert!(PROBE_SAW_REJECTED.load(VSeq) == 0, "C07.Filtered.context.span_rejected_by_this_filter_is_invisible_to_the_wrapped_layer");
    assert!(PROBE_SAW_ACCEPTED.load(VSeq) == 1, "C07.Filtered.context.accepted_span_stays_visible");
    assert!(PROBE_PARENT_OF_3.load(VSeq) == 1, "C07.Filtered.context.parent_lookup_skips_the_rejected_ancestor");
}

// ---------- ancestor walks through a filtered Context: the wrapped layer sees exactly the ancestors its own filter
// accepted, in order, however MANY consecutive rejected ones lie in between (parent(), chained parent(), scope())
vstatic!(WALK_PARENT_OF_4: VAtomicUsize = VAtomicUsize::new(99));
vstatic!(WALK_CHAIN: VAtomicUsize = VAtomicUsize::new(99));
vstatic!(WALK_SCOPE: VAtomicUsize = VAtomicUsize::new(99));
vstatic!(WALK_MODE: VAtomicUsize = VAtomicUsize::new(0));
struct VWalker;
impl Subscribe<VRoot> for VWalker {
    fn on_event(&self, _: &Event<'_>, ctx: Context<'_, VRoot>) {
        if let Some(s) = ctx.span(&span::Id::from_u64(4)) {
            if WALK_MODE.load(VSeq) == 0 {
                WALK_PARENT_OF_4.store(s.parent().map(|p| p.id().into_u64()).unwrap_or(0) as usize, VSeq);
                let mut chain = 0usize; let mut cur = s.parent();
                while let Some(p) = cur { chain = chain * 8 + p.id().into_u64() as usize; cur = p.parent(); }
                WALK_CHAIN.store(chain, VSeq);
            } else {
                let mut code = 0usize;
                for sp in s.scope() { code = code * 8 + sp.id().into_u64() as usize; }
                WALK_SCOPE.store(code, VSeq);
            }
        }
    }
}
fn walk_body(mode: usize) {
    WALK_MODE.store(mode, VSeq);
    let mut root = VRoot::empty();
    root.next_filter = nd(); kani::assume(root.next_filter < 63);
    let k = root.next_filter;
    let other_bits: u64 = nd();
    // chain 1 <- 2 <- 3 <- 4; spans 1..3 each accepted or rejected by THIS filter, span 4 accepted; other filters' bits arbitrary
    let acc: [bool; 4] = [nd(), nd(), nd(), true];
    let mut i = 1;
    while i <= 4 {
        root.exists[i] = true; root.parent[i] = (i - 1) as u64;
        root.bits[i] = if acc[i - 1] { other_bits & !(1u64 << k) } else { other_bits | (1u64 << k) };
        i += 1;
    }
    let mut layer = Filtered::new(VWalker, VFil::accept(true));
    Subscribe::<VRoot>::on_subscribe(&mut layer, &mut root);
    thread_state(0);
    let vs = VMETA.fields().value_set(&[]); let ev = Event::new(&VMETA, &vs);
    Subscribe::<VRoot>::on_event(&layer, &ev, Context::__verif_new(&root));
    // spec: the visible ancestors of 4, leaf to root
    let mut want_chain = 0usize; let mut first = 0usize; let mut j = 3;
    while j >= 1 { if acc[j - 1] { if first == 0 { first = j; } want_chain = want_chain * 8 + j; } j -= 1; }
    if mode == 0 {
        assert!(WALK_PARENT_OF_4.load(VSeq) == first, "C07.context.parent_is_the_NEAREST_ancestor_this_filter_accepted");
        assert!(WALK_CHAIN.load(VSeq) == want_chain, "C07.context.chained_parent_calls_yield_exactly_the_accepted_ancestors_in_order");
    }
    // scope() starts with the span itself
    let mut want_scope = 4usize; let mut j = 3;
    while j >= 1 { if acc[j - 1] { want_scope = want_scope * 8 + j; } j -= 1; }
    if mode == 1 { assert!(WALK_SCOPE.load(VSeq) == want_scope, "C07.context.scope_yields_exactly_the_span_and_its_accepted_ancestors_leaf_to_root"); }
    kani::cover!(!acc[1] && !acc[2] && acc[0], "C07.reachable.two_rejected_ancestors_in_a_row");
}
#[kani::proof]
#[kani::unwind(7)]
#[kani::stub(core::fmt::Formatter::pad, pad_stub)]
fn c07_parent_walk_skips_every_rejected_ancestor_however_many_in_a_row() { walk_body(0) }
#[kani::proof]
#[kani::unwind(7)]
#[kani::stub(core::fmt::Formatter::pad, pad_stub)]
fn c07_scope_walk_skips_every_rejected_ancestor_however_many_in_a_row() { walk_body(1) }

// the same with the global layer BELOW the filtered one (`registry().with(global).with(layer.with_filter(f))`): the veto
// then comes from a Layered node whose own layer is NOT per-layer-filtered, after the filtered layer above it has already
// written its bit - the bitmap must be empty again all the same, and the NEXT emission must be judged afresh
#[kani::proof]
#[kani::unwind(4)]
#[kani::stub(core::fmt::Formatter::pad, pad_stub)]
#[kani::stub(sharded_slab::Pool::clear, stub_pool_clear)]
fn c07_stack_global_filter_below_a_filtered_layer_vetoes_and_clears() {
    let fa = VFil::any(); let g: bool = nd();
    let stack = VRoot::empty().with(VRec { i: 1, global_enabled: g, interest: 1, hint: 6 }).with(VRec::plain(0).with_filter(fa));
    emit_event(&stack);
    assert!(vseen(0, VK_EVENT) == (g && fa.enabled && fa.ev_enabled) as usize, "C07.stack.global_below.filtered_layer_receives_iff_global_and_own_filter_accept");
    assert!(thread_bits() == 0, "C07.stack.global_below.I7_bitmap_empty_after_veto_or_delivery");
    kani::cover!(!g && !fa.enabled, "C07.reachable.global_veto_after_the_filter_rejected");
}
