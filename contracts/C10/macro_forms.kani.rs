// C10 (tracing part) — a catalogue of macro forms through the REAL macros and the real MacroCallsite: every field /
// message expression is evaluated exactly once when the callsite is enabled and NOT AT ALL when it is disabled by any
// filtering stage (published max level, cached `never`, dynamic `enabled` = false); the visitor sees the fields once each,
// in declaration order (message first), under their names, through the method for their type; `%` presents Display,
// `?` presents Debug.  tracing-core's global state is replaced by its contracts exactly as in C01's
// macro_guard_inv.kani.rs (get_default = current collector, LevelFilter::current = published level, callsite::register
// = sets the cached interest); the first version drove the real registry and needed > 24 GB per harness.
use crate::{collect::Interest, dispatch::Dispatch, field::{Field, Visit}, span, Collect, Event, Level, Metadata};
use tracing_core::LevelFilter;
use core::cell::Cell;
use core::sync::atomic::{AtomicUsize, Ordering as AO};
use std::sync::Arc;

fn nd<T: kani::Arbitrary>() -> T { kani::any() }
fn pad_stub<'a>(_f: &mut core::fmt::Formatter<'a>, _s: &str) -> core::fmt::Result where 'a: 'a { Ok(()) }
fn filter_of(k: u8) -> LevelFilter {
    match k { 0 => LevelFilter::OFF, 1 => LevelFilter::ERROR, 2 => LevelFilter::WARN, 3 => LevelFilter::INFO, 4 => LevelFilter::DEBUG, _ => LevelFilter::TRACE }
}
vstatic!(CUR_DISPATCH: AtomicUsize = AtomicUsize::new(0));
vstatic!(CUR_MAX: AtomicUsize = AtomicUsize::new(5));
vstatic!(NEXT_CACHED: AtomicUsize = AtomicUsize::new(2));
fn get_default_stub<T, F>(mut f: F) -> T where F: FnMut(&Dispatch) -> T {
    let p = CUR_DISPATCH.load(AO::SeqCst) as *const Dispatch;
    assert!(!p.is_null(), "C10.setup.a_current_collector_is_installed");
    f(unsafe { &*p })
}
fn current_stub() -> LevelFilter { filter_of(CUR_MAX.load(AO::SeqCst) as u8) }
fn register_stub(reg: &'static tracing_core::callsite::Registration) {
    let k = NEXT_CACHED.load(AO::SeqCst);
    reg.__verif_callsite().set_interest(match k { 0 => Interest::never(), 1 => Interest::sometimes(), _ => Interest::always() });
}

/// log of what the visitor saw: up to 4 entries of (first byte of the field name, kind, low bits of the value)
struct St { n: AtomicUsize, name: [AtomicUsize; 4], kind: [AtomicUsize; 4], val: [AtomicUsize; 4], events: AtomicUsize, spans: AtomicUsize }
fn new_st() -> Arc<St> { Arc::new(St { n: AtomicUsize::new(0), name: [AtomicUsize::new(0), AtomicUsize::new(0), AtomicUsize::new(0), AtomicUsize::new(0)],
    kind: [AtomicUsize::new(0), AtomicUsize::new(0), AtomicUsize::new(0), AtomicUsize::new(0)], val: [AtomicUsize::new(0), AtomicUsize::new(0), AtomicUsize::new(0), AtomicUsize::new(0)],
    events: AtomicUsize::new(0), spans: AtomicUsize::new(0) }) }
const K_U64: usize = 1; const K_I64: usize = 2; const K_BOOL: usize = 3; const K_STR: usize = 4; const K_DEBUG: usize = 5;
struct Sink;
impl core::fmt::Write for Sink { fn write_str(&mut self, _: &str) -> core::fmt::Result { Ok(()) } }
struct V<'a>(&'a St);
impl V<'_> { fn put(&mut self, f: &Field, k: usize, v: usize) { let i = self.0.n.fetch_add(1, AO::SeqCst); if i < 4 { self.0.name[i].store(f.name().as_bytes()[0] as usize, AO::SeqCst); self.0.kind[i].store(k, AO::SeqCst); self.0.val[i].store(v, AO::SeqCst); } } }
impl Visit for V<'_> {
    fn record_u64(&mut self, f: &Field, v: u64) { self.put(f, K_U64, v as usize) }
    fn record_i64(&mut self, f: &Field, v: i64) { self.put(f, K_I64, v as usize) }
    fn record_bool(&mut self, f: &Field, v: bool) { self.put(f, K_BOOL, v as usize) }
    fn record_str(&mut self, f: &Field, v: &str) { self.put(f, K_STR, v.len()) }
    // the value is RENDERED through its Debug impl (which is what a `?` / `%` field hands the visitor); Probe below notes
    // which of its two impls was used
    fn record_debug(&mut self, f: &Field, v: &dyn core::fmt::Debug) { let _ = core::fmt::write(&mut Sink, format_args!("{:?}", v)); self.put(f, K_DEBUG, 0) }
}
/// a value whose Display and Debug impls are distinguishable without reading text
struct Probe<'a> { disp: &'a Cell<u32>, dbg: &'a Cell<u32> }
impl core::fmt::Display for Probe<'_> { fn fmt(&self, _: &mut core::fmt::Formatter<'_>) -> core::fmt::Result { self.disp.set(self.disp.get() + 1); Ok(()) } }
impl core::fmt::Debug for Probe<'_> { fn fmt(&self, _: &mut core::fmt::Formatter<'_>) -> core::fmt::Result { self.dbg.set(self.dbg.get() + 1); Ok(()) } }

struct Rec { dynamic: bool, s: Arc<St> }
impl Collect for Rec {
    fn register_callsite(&self, _: &'static Metadata<'static>) -> Interest { Interest::sometimes() }
    fn enabled(&self, _: &Metadata<'_>) -> bool { self.dynamic }
    fn new_span(&self, a: &span::Attributes<'_>) -> span::Id { self.s.spans.fetch_add(1, AO::SeqCst); a.record(&mut V(&self.s)); span::Id::from_u64(1) }
    fn record(&self, _: &span::Id, _: &span::Record<'_>) {}
    fn record_follows_from(&self, _: &span::Id, _: &span::Id) {}
    fn event(&self, e: &Event<'_>) { self.s.events.fetch_add(1, AO::SeqCst); e.record(&mut V(&self.s)); }
    fn enter(&self, _: &span::Id) {}
    fn exit(&self, _: &span::Id) {}
    fn current_span(&self) -> tracing_core::span::Current { tracing_core::span::Current::unknown() }
}
fn saw(s: &St, i: usize, name: u8, kind: usize, val: usize) -> bool { s.name[i].load(AO::SeqCst) == name as usize && s.kind[i].load(AO::SeqCst) == kind && s.val[i].load(AO::SeqCst) == val }

/// installs a collector and ONE of the filtering stages for a callsite of rank `lvl`; returns (dispatch, enabled?)
///   stage 0: everything lets it through (cached always, or sometimes + dynamic true)
///   stage 1: the published maximum level is below the callsite's level
///   stage 2: the cached interest is `never`
///   stage 3: cached `sometimes` and the collector's dynamic check says no
fn stage(lvl: u8, s: &Arc<St>) -> (Dispatch, bool) {
    let st: u8 = nd(); kani::assume(st <= 3);
    let cached: u8 = nd(); let max: u8 = nd(); kani::assume(max <= 5);
    kani::assume(match st { 0 => cached == 1 || cached == 2, 2 => cached == 0, 3 => cached == 1, _ => cached <= 2 });
    kani::assume(if st == 1 { max < lvl } else { max >= lvl });
    NEXT_CACHED.store(cached as usize, AO::SeqCst); CUR_MAX.store(max as usize, AO::SeqCst);
    let dynamic = if st == 3 { false } else if st == 0 { true } else { nd() };
    (Dispatch::__verif_unregistered(Rec { dynamic, s: s.clone() }), st == 0)
}

#[kani::proof]
#[kani::unwind(8)]
#[kani::stub(core::fmt::Formatter::pad, pad_stub)]
#[kani::stub(tracing_core::dispatch::get_default, get_default_stub)]
#[kani::stub(tracing_core::metadata::LevelFilter::current, current_stub)]
#[kani::stub(tracing_core::callsite::register, register_stub)]
fn c10_event_named_fields_evaluated_once_in_order_iff_enabled() {
    let x: u64 = nd(); let y: bool = nd();
    let s = new_st();
    let (d, on) = stage(3, &s);
    CUR_DISPATCH.store(&d as *const Dispatch as usize, AO::SeqCst);
    let evals = Cell::new(0u32);
    crate::event!(Level::INFO, alpha = { evals.set(evals.get() + 1); x }, beta = { evals.set(evals.get() + 10); y }, gamma = "str");
    kani::cover!(on, "C10.reachable.event_enabled"); kani::cover!(!on, "C10.reachable.event_disabled");
    if on {
        assert!(evals.get() == 11, "C10.event.each_field_expression_evaluated_exactly_once_when_enabled");
        assert!(s.events.load(AO::SeqCst) == 1 && s.n.load(AO::SeqCst) == 3, "C10.event.each_field_visited_exactly_once");
        assert!(saw(&s, 0, b'a', K_U64, x as usize) && saw(&s, 1, b'b', K_BOOL, y as usize) && saw(&s, 2, b'g', K_STR, 3), "C10.event.declaration_order_names_types_values");
    } else {
        assert!(evals.get() == 0 && s.events.load(AO::SeqCst) == 0 && s.n.load(AO::SeqCst) == 0, "C10.event.nothing_evaluated_when_disabled_by_any_stage");
    }
}

#[kani::proof]
#[kani::unwind(8)]
#[kani::stub(core::fmt::Formatter::pad, pad_stub)]
#[kani::stub(tracing_core::dispatch::get_default, get_default_stub)]
#[kani::stub(tracing_core::metadata::LevelFilter::current, current_stub)]
#[kani::stub(tracing_core::callsite::register, register_stub)]
fn c10_span_shorthand_and_sigils_evaluated_once_iff_enabled() {
    let count: i64 = nd(); let flag: bool = nd();
    let s = new_st();
    let (d, on) = stage(4, &s);
    CUR_DISPATCH.store(&d as *const Dispatch as usize, AO::SeqCst);
    let evals = Cell::new(0u32);
    let sp = crate::span!(Level::DEBUG, "work", count, dbg = ?{ evals.set(evals.get() + 1); flag }, unset = crate::field::Empty);
    core::mem::forget(sp);
    kani::cover!(on, "C10.reachable.span_enabled"); kani::cover!(!on, "C10.reachable.span_disabled");
    if on {
        assert!(evals.get() == 1 && s.spans.load(AO::SeqCst) == 1, "C10.span.expressions_evaluated_once_when_enabled");
        assert!(s.n.load(AO::SeqCst) == 2, "C10.span.empty_field_not_visited_others_once");
        assert!(saw(&s, 0, b'c', K_I64, count as usize) && saw(&s, 1, b'd', K_DEBUG, 0), "C10.span.shorthand_then_debug_sigil_in_order");
    } else {
        assert!(evals.get() == 0 && s.spans.load(AO::SeqCst) == 0 && s.n.load(AO::SeqCst) == 0, "C10.span.nothing_evaluated_when_disabled_by_any_stage");
    }
}

// `%` hands the visitor the value's Display rendering and `?` its Debug rendering - in EVERY position and for identifier,
// dotted and string-literal field names (each name form is a separate arm of valueset!)
#[kani::proof]
#[kani::unwind(8)]
#[kani::stub(core::fmt::Formatter::pad, pad_stub)]
#[kani::stub(tracing_core::dispatch::get_default, get_default_stub)]
#[kani::stub(tracing_core::metadata::LevelFilter::current, current_stub)]
#[kani::stub(tracing_core::callsite::register, register_stub)]
fn c10_display_and_debug_sigils_present_the_matching_rendering() {
    let s = new_st();
    NEXT_CACHED.store(2, AO::SeqCst); CUR_MAX.store(5, AO::SeqCst);
    let d = Dispatch::__verif_unregistered(Rec { dynamic: true, s: s.clone() });
    CUR_DISPATCH.store(&d as *const Dispatch as usize, AO::SeqCst);
    let (d1, g1, d2, g2, d3, g3, d4, g4) = (Cell::new(0), Cell::new(0), Cell::new(0), Cell::new(0), Cell::new(0), Cell::new(0), Cell::new(0), Cell::new(0));
    let form: u8 = nd(); kani::assume(form < 4);
    match form {
        // identifier names: % first, ? last
        0 => crate::event!(Level::INFO, a = %Probe { disp: &d1, dbg: &g1 }, b = ?Probe { disp: &d2, dbg: &g2 }),
        // string-literal names: ? first, % LAST
        1 => crate::event!(Level::INFO, "a.x" = ?Probe { disp: &d2, dbg: &g2 }, "b.y" = %Probe { disp: &d1, dbg: &g1 }),
        // dotted names: % last
        2 => crate::event!(Level::INFO, a.x = ?Probe { disp: &d2, dbg: &g2 }, b.y = %Probe { disp: &d1, dbg: &g1 }),
        // string-literal name with % in the middle, span form
        _ => { let sp = crate::span!(Level::INFO, "s", "a.x" = %Probe { disp: &d1, dbg: &g1 }, b = ?Probe { disp: &d2, dbg: &g2 }); core::mem::forget(sp); }
    }
    let _ = (&d3, &g3, &d4, &g4);
    kani::cover!(form == 1, "C10.reachable.literal_name_percent_last"); kani::cover!(form == 3, "C10.reachable.span_form");
    assert!(s.n.load(AO::SeqCst) == 2, "C10.sigil.both_fields_visited_once");
    assert!(d1.get() == 1 && g1.get() == 0, "C10.sigil.percent_presents_Display_exactly_once_and_never_Debug");
    assert!(g2.get() == 1 && d2.get() == 0, "C10.sigil.question_mark_presents_Debug_exactly_once_and_never_Display");
}

// a format-string message is presented FIRST, whatever precedes it in the macro call; its arguments are evaluated once
#[kani::proof]
#[kani::unwind(8)]
#[kani::stub(core::fmt::Formatter::pad, pad_stub)]
#[kani::stub(tracing_core::dispatch::get_default, get_default_stub)]
#[kani::stub(tracing_core::metadata::LevelFilter::current, current_stub)]
#[kani::stub(tracing_core::callsite::register, register_stub)]
fn c10_message_first_and_its_arguments_evaluated_once_iff_enabled() {
    let x: u64 = nd();
    let s = new_st();
    let (d, on) = stage(2, &s);
    CUR_DISPATCH.store(&d as *const Dispatch as usize, AO::SeqCst);
    let evals = Cell::new(0u32);
    crate::event!(Level::WARN, zeta = { evals.set(evals.get() + 1); x }, "hello {}", { evals.set(evals.get() + 10); 7u8 });
    kani::cover!(on, "C10.reachable.message_enabled"); kani::cover!(!on, "C10.reachable.message_disabled");
    if on {
        assert!(evals.get() == 11, "C10.message.field_and_format_argument_evaluated_exactly_once");
        assert!(s.n.load(AO::SeqCst) == 2 && s.name[0].load(AO::SeqCst) == b'm' as usize && s.kind[0].load(AO::SeqCst) == K_DEBUG, "C10.message.presented_first_as_message");
        assert!(saw(&s, 1, b'z', K_U64, x as usize), "C10.message.then_the_declared_field");
    } else {
        assert!(evals.get() == 0 && s.n.load(AO::SeqCst) == 0 && s.events.load(AO::SeqCst) == 0, "C10.message.nothing_evaluated_when_disabled_by_any_stage");
    }
}

// every PREFIX form of event! (name: / target: / parent: in all 8 combinations - each is a separate hand-written arm of
// the macro with its own copy of the guard) evaluates its field expression exactly once iff enabled, at every stage
#[kani::proof]
#[kani::unwind(8)]
#[kani::stub(core::fmt::Formatter::pad, pad_stub)]
#[kani::stub(tracing_core::dispatch::get_default, get_default_stub)]
#[kani::stub(tracing_core::metadata::LevelFilter::current, current_stub)]
#[kani::stub(tracing_core::callsite::register, register_stub)]
fn c10_event_prefix_forms_evaluate_once_iff_enabled() {
    let x: u64 = nd();
    let s = new_st();
    let (d, on) = stage(3, &s);
    CUR_DISPATCH.store(&d as *const Dispatch as usize, AO::SeqCst);
    let evals = Cell::new(0u32);
    let form: u8 = nd(); kani::assume(form < 8);
    match form {
        0 => crate::event!(Level::INFO, alpha = { evals.set(evals.get() + 1); x }),
        1 => crate::event!(target: "t", Level::INFO, alpha = { evals.set(evals.get() + 1); x }),
        2 => crate::event!(name: "n", Level::INFO, alpha = { evals.set(evals.get() + 1); x }),
        3 => crate::event!(parent: None, Level::INFO, alpha = { evals.set(evals.get() + 1); x }),
        4 => crate::event!(name: "n", target: "t", Level::INFO, alpha = { evals.set(evals.get() + 1); x }),
        5 => crate::event!(target: "t", parent: None, Level::INFO, alpha = { evals.set(evals.get() + 1); x }),
        6 => crate::event!(name: "n", parent: None, Level::INFO, alpha = { evals.set(evals.get() + 1); x }),
        _ => crate::event!(name: "n", target: "t", parent: None, Level::INFO, alpha = { evals.set(evals.get() + 1); x }),
    }
    kani::cover!(on && form == 4, "C10.reachable.name_target_enabled"); kani::cover!(!on && form == 7, "C10.reachable.all_prefixes_disabled");
    if on {
        assert!(evals.get() == 1 && s.events.load(AO::SeqCst) == 1 && s.n.load(AO::SeqCst) == 1 && saw(&s, 0, b'a', K_U64, x as usize), "C10.event.prefix_forms.evaluated_and_visited_exactly_once_when_enabled");
    } else {
        assert!(evals.get() == 0 && s.events.load(AO::SeqCst) == 0 && s.n.load(AO::SeqCst) == 0, "C10.event.prefix_forms.nothing_evaluated_when_disabled_by_any_stage");
    }
}
// the same for span!
#[kani::proof]
#[kani::unwind(8)]
#[kani::stub(core::fmt::Formatter::pad, pad_stub)]
#[kani::stub(tracing_core::dispatch::get_default, get_default_stub)]
#[kani::stub(tracing_core::metadata::LevelFilter::current, current_stub)]
#[kani::stub(tracing_core::callsite::register, register_stub)]
fn c10_span_prefix_forms_evaluate_once_iff_enabled() {
    let x: u64 = nd();
    let s = new_st();
    let (d, on) = stage(3, &s);
    CUR_DISPATCH.store(&d as *const Dispatch as usize, AO::SeqCst);
    let evals = Cell::new(0u32);
    let form: u8 = nd(); kani::assume(form < 4);
    let sp = match form {
        0 => crate::span!(Level::INFO, "s", alpha = { evals.set(evals.get() + 1); x }),
        1 => crate::span!(target: "t", Level::INFO, "s", alpha = { evals.set(evals.get() + 1); x }),
        2 => crate::span!(parent: None, Level::INFO, "s", alpha = { evals.set(evals.get() + 1); x }),
        _ => crate::span!(target: "t", parent: None, Level::INFO, "s", alpha = { evals.set(evals.get() + 1); x }),
    };
    core::mem::forget(sp);
    if on {
        assert!(evals.get() == 1 && s.spans.load(AO::SeqCst) == 1 && s.n.load(AO::SeqCst) == 1 && saw(&s, 0, b'a', K_U64, x as usize), "C10.span.prefix_forms.evaluated_and_visited_exactly_once_when_enabled");
    } else {
        assert!(evals.get() == 0 && s.spans.load(AO::SeqCst) == 0 && s.n.load(AO::SeqCst) == 0, "C10.span.prefix_forms.nothing_evaluated_when_disabled_by_any_stage");
    }
}

// shorthand fields (`name`, `?name`, `%name`: the field is called like the variable) next to `name = value` fields: names and
// values stay paired, whatever the position of the shorthand (each position / sigil is a separate arm of valueset!)
#[kani::proof]
#[kani::unwind(8)]
#[kani::stub(core::fmt::Formatter::pad, pad_stub)]
#[kani::stub(tracing_core::dispatch::get_default, get_default_stub)]
#[kani::stub(tracing_core::metadata::LevelFilter::current, current_stub)]
#[kani::stub(tracing_core::callsite::register, register_stub)]
fn c10_shorthand_fields_keep_names_and_values_paired() {
    let s = new_st();
    NEXT_CACHED.store(2, AO::SeqCst); CUR_MAX.store(5, AO::SeqCst);
    let d = Dispatch::__verif_unregistered(Rec { dynamic: true, s: s.clone() });
    CUR_DISPATCH.store(&d as *const Dispatch as usize, AO::SeqCst);
    let x: u64 = nd(); let zeta: u64 = nd();
    let (dd, dg) = (Cell::new(0), Cell::new(0));
    let thing = Probe { disp: &dd, dbg: &dg };
    let form: u8 = nd(); kani::assume(form < 6);
    // expected: (position of `alpha`, position of the shorthand field, its first letter, its kind, its value)
    let (pa, ps, letter, kind, val): (usize, usize, u8, usize, usize) = match form {
        0 => { crate::event!(Level::INFO, alpha = x, ?thing); (0, 1, b't', K_DEBUG, 0) }
        1 => { crate::event!(Level::INFO, alpha = x, %thing); (0, 1, b't', K_DEBUG, 0) }
        2 => { crate::event!(Level::INFO, ?thing, alpha = x); (1, 0, b't', K_DEBUG, 0) }
        3 => { crate::event!(Level::INFO, %thing, alpha = x); (1, 0, b't', K_DEBUG, 0) }
        4 => { crate::event!(Level::INFO, alpha = x, zeta); (0, 1, b'z', K_U64, zeta as usize) }
        _ => { let sp = crate::span!(Level::INFO, "s", alpha = x, ?thing); core::mem::forget(sp); (0, 1, b't', K_DEBUG, 0) }
    };
    assert!(s.n.load(AO::SeqCst) == 2, "C10.shorthand.both_fields_visited_once");
    assert!(saw(&s, pa, b'a', K_U64, x as usize), "C10.shorthand.named_field_keeps_its_own_name_type_and_value");
    assert!(saw(&s, ps, letter, kind, val), "C10.shorthand.shorthand_field_is_called_like_the_variable_and_carries_its_value");
    // sigils: ? renders Debug, % renders Display, exactly once
    if form == 0 || form == 2 || form == 5 { assert!(dg.get() == 1 && dd.get() == 0, "C10.shorthand.question_mark_renders_Debug"); }
    if form == 1 || form == 3 { assert!(dd.get() == 1 && dg.get() == 0, "C10.shorthand.percent_renders_Display"); }
    kani::cover!(form == 0, "C10.reachable.debug_shorthand_last");
}

// the level-named shorthands (`error!` .. `trace!`, `error_span!` .. `trace_span!`) are separate macros with their own arms
// for every prefix form: each evaluates its field expression exactly once iff a callsite OF ITS OWN LEVEL is enabled - the
// stage is chosen relative to the level the macro's name promises, so a shorthand that expands to another level is asked
// for fields while disabled (or stays silent while enabled)
#[kani::proof]
#[kani::unwind(8)]
#[kani::stub(core::fmt::Formatter::pad, pad_stub)]
#[kani::stub(tracing_core::dispatch::get_default, get_default_stub)]
#[kani::stub(tracing_core::metadata::LevelFilter::current, current_stub)]
#[kani::stub(tracing_core::callsite::register, register_stub)]
fn c10_level_named_event_shorthands_evaluate_once_iff_enabled_at_their_own_level() {
    let x: u64 = nd();
    let s = new_st();
    let which: u8 = nd(); kani::assume(which < 5);
    let (d, on) = stage(which + 1, &s);
    CUR_DISPATCH.store(&d as *const Dispatch as usize, AO::SeqCst);
    let evals = Cell::new(0u32);
    let pre: bool = nd();
    match (which, pre) {
        (0, false) => crate::error!(alpha = { evals.set(evals.get() + 1); x }),
        (0, true) => crate::error!(target: "t", alpha = { evals.set(evals.get() + 1); x }),
        (1, false) => crate::warn!(alpha = { evals.set(evals.get() + 1); x }),
        (1, true) => crate::warn!(target: "t", alpha = { evals.set(evals.get() + 1); x }),
        (2, false) => crate::info!(alpha = { evals.set(evals.get() + 1); x }),
        (2, true) => crate::info!(target: "t", alpha = { evals.set(evals.get() + 1); x }),
        (3, false) => crate::debug!(alpha = { evals.set(evals.get() + 1); x }),
        (3, true) => crate::debug!(target: "t", alpha = { evals.set(evals.get() + 1); x }),
        (_, false) => crate::trace!(alpha = { evals.set(evals.get() + 1); x }),
        (_, true) => crate::trace!(target: "t", alpha = { evals.set(evals.get() + 1); x }),
    }
    kani::cover!(on && which == 1, "C10.reachable.warn_enabled"); kani::cover!(!on && which == 4 && pre, "C10.reachable.trace_target_disabled");
    if on {
        assert!(evals.get() == 1 && s.events.load(AO::SeqCst) == 1 && s.n.load(AO::SeqCst) == 1 && saw(&s, 0, b'a', K_U64, x as usize), "C10.event.level_shorthands.evaluated_and_visited_exactly_once_when_enabled_at_the_named_level");
    } else {
        assert!(evals.get() == 0 && s.events.load(AO::SeqCst) == 0 && s.n.load(AO::SeqCst) == 0, "C10.event.level_shorthands.nothing_evaluated_when_disabled_at_the_named_level");
    }
}
#[kani::proof]
#[kani::unwind(8)]
#[kani::stub(core::fmt::Formatter::pad, pad_stub)]
#[kani::stub(tracing_core::dispatch::get_default, get_default_stub)]
#[kani::stub(tracing_core::metadata::LevelFilter::current, current_stub)]
#[kani::stub(tracing_core::callsite::register, register_stub)]
fn c10_level_named_span_shorthands_evaluate_once_iff_enabled_at_their_own_level() {
    let x: u64 = nd();
    let s = new_st();
    let which: u8 = nd(); kani::assume(which < 5);
    let (d, on) = stage(which + 1, &s);
    CUR_DISPATCH.store(&d as *const Dispatch as usize, AO::SeqCst);
    let evals = Cell::new(0u32);
    let pre: bool = nd();
    let sp = match (which, pre) {
        (0, false) => crate::error_span!("s", alpha = { evals.set(evals.get() + 1); x }),
        (0, true) => crate::error_span!(target: "t", "s", alpha = { evals.set(evals.get() + 1); x }),
        (1, false) => crate::warn_span!("s", alpha = { evals.set(evals.get() + 1); x }),
        (1, true) => crate::warn_span!(parent: None, "s", alpha = { evals.set(evals.get() + 1); x }),
        (2, false) => crate::info_span!("s", alpha = { evals.set(evals.get() + 1); x }),
        (2, true) => crate::info_span!(target: "t", parent: None, "s", alpha = { evals.set(evals.get() + 1); x }),
        (3, false) => crate::debug_span!("s", alpha = { evals.set(evals.get() + 1); x }),
        (3, true) => crate::debug_span!(target: "t", "s", alpha = { evals.set(evals.get() + 1); x }),
        (_, false) => crate::trace_span!("s", alpha = { evals.set(evals.get() + 1); x }),
        (_, true) => crate::trace_span!(parent: None, "s", alpha = { evals.set(evals.get() + 1); x }),
    };
    core::mem::forget(sp);
    kani::cover!(on && which == 3, "C10.reachable.debug_span_enabled"); kani::cover!(!on && which == 0, "C10.reachable.error_span_disabled");
    if on {
        assert!(evals.get() == 1 && s.spans.load(AO::SeqCst) == 1 && s.n.load(AO::SeqCst) == 1 && saw(&s, 0, b'a', K_U64, x as usize), "C10.span.level_shorthands.evaluated_and_visited_exactly_once_when_enabled_at_the_named_level");
    } else {
        assert!(evals.get() == 0 && s.spans.load(AO::SeqCst) == 0 && s.n.load(AO::SeqCst) == 0, "C10.span.level_shorthands.nothing_evaluated_when_disabled_at_the_named_level");
    }
}
// ... and their `?x` / `%x` shorthand arms and the message arm (each a separate arm per level-named macro)
#[kani::proof]
#[kani::unwind(8)]
#[kani::stub(core::fmt::Formatter::pad, pad_stub)]
#[kani::stub(tracing_core::dispatch::get_default, get_default_stub)]
#[kani::stub(tracing_core::metadata::LevelFilter::current, current_stub)]
#[kani::stub(tracing_core::callsite::register, register_stub)]
fn c10_level_named_event_shorthands_sigil_and_message_arms_evaluate_once_iff_enabled_at_their_own_level() {
    let x: u64 = nd();
    let s = new_st();
    let which: u8 = nd(); kani::assume(which < 5);
    let (d, on) = stage(which + 1, &s);
    CUR_DISPATCH.store(&d as *const Dispatch as usize, AO::SeqCst);
    let evals = Cell::new(0u32);
    let (dd, dg) = (Cell::new(0), Cell::new(0));
    let thing = Probe { disp: &dd, dbg: &dg };
    let form: u8 = nd(); kani::assume(form < 3);
    match (which, form) {
        (0, 0) => crate::error!(?thing), (0, 1) => crate::error!(%thing), (0, _) => crate::error!("m {}", { evals.set(evals.get() + 1); x }),
        (1, 0) => crate::warn!(?thing), (1, 1) => crate::warn!(%thing), (1, _) => crate::warn!("m {}", { evals.set(evals.get() + 1); x }),
        (2, 0) => crate::info!(?thing), (2, 1) => crate::info!(%thing), (2, _) => crate::info!("m {}", { evals.set(evals.get() + 1); x }),
        (3, 0) => crate::debug!(?thing), (3, 1) => crate::debug!(%thing), (3, _) => crate::debug!("m {}", { evals.set(evals.get() + 1); x }),
        (_, 0) => crate::trace!(?thing), (_, 1) => crate::trace!(%thing), (_, _) => crate::trace!("m {}", { evals.set(evals.get() + 1); x }),
    }
    kani::cover!(on && which == 4 && form == 1, "C10.reachable.trace_display_shorthand_enabled"); kani::cover!(!on && which == 0 && form == 2, "C10.reachable.error_message_disabled");
    if on {
        assert!(s.events.load(AO::SeqCst) == 1 && s.n.load(AO::SeqCst) == 1, "C10.event.level_shorthands.sigil_and_message_arms.one_event_one_field_when_enabled_at_the_named_level");
        match form {
            0 => assert!(saw(&s, 0, b't', K_DEBUG, 0) && dg.get() == 1 && dd.get() == 0, "C10.event.level_shorthands.question_mark_shorthand_is_named_like_the_variable_and_renders_Debug_once"),
            1 => assert!(saw(&s, 0, b't', K_DEBUG, 0) && dd.get() == 1 && dg.get() == 0, "C10.event.level_shorthands.percent_shorthand_is_named_like_the_variable_and_renders_Display_once"),
            _ => assert!(saw(&s, 0, b'm', K_DEBUG, 0) && evals.get() == 1, "C10.event.level_shorthands.message_argument_evaluated_once_and_presented_as_message"),
        }
    } else {
        assert!(evals.get() == 0 && dd.get() == 0 && dg.get() == 0 && s.events.load(AO::SeqCst) == 0 && s.n.load(AO::SeqCst) == 0, "C10.event.level_shorthands.sigil_and_message_arms.nothing_evaluated_or_rendered_when_disabled_at_the_named_level");
    }
}
