// C10 (tracing part) — a catalogue of macro forms through the REAL macros, callsite registration and dispatch:
// every field / message expression is evaluated exactly once when the callsite is enabled and not at all when it is
// disabled; the visitor sees the fields once each, in declaration order (message first), under their names.
// All recording state lives inside the collector (heap): see DESIGN.md section 0a (static aliasing in Kani 0.68).
use crate::{collect::Interest, dispatch::Dispatch, field::{Field, Visit}, span, Collect, Event, Level, Metadata};
use core::cell::Cell;
use core::sync::atomic::{AtomicUsize, Ordering as AO};
use std::sync::Arc;

fn nd<T: kani::Arbitrary>() -> T { kani::any() }
fn pad_stub<'a>(_f: &mut core::fmt::Formatter<'a>, _s: &str) -> core::fmt::Result where 'a: 'a { Ok(()) }

/// log of what the visitor saw: up to 4 entries of (first byte of the field name, kind, low bits of the value)
struct St { n: AtomicUsize, name: [AtomicUsize; 4], kind: [AtomicUsize; 4], val: [AtomicUsize; 4], events: AtomicUsize, spans: AtomicUsize }
fn new_st() -> Arc<St> { Arc::new(St { n: AtomicUsize::new(0), name: [AtomicUsize::new(0), AtomicUsize::new(0), AtomicUsize::new(0), AtomicUsize::new(0)],
    kind: [AtomicUsize::new(0), AtomicUsize::new(0), AtomicUsize::new(0), AtomicUsize::new(0)], val: [AtomicUsize::new(0), AtomicUsize::new(0), AtomicUsize::new(0), AtomicUsize::new(0)],
    events: AtomicUsize::new(0), spans: AtomicUsize::new(0) }) }
const K_U64: usize = 1; const K_I64: usize = 2; const K_BOOL: usize = 3; const K_STR: usize = 4; const K_DEBUG: usize = 5;
struct V<'a>(&'a St);
impl V<'_> { fn put(&mut self, f: &Field, k: usize, v: usize) { let i = self.0.n.fetch_add(1, AO::SeqCst); if i < 4 { self.0.name[i].store(f.name().as_bytes()[0] as usize, AO::SeqCst); self.0.kind[i].store(k, AO::SeqCst); self.0.val[i].store(v, AO::SeqCst); } } }
impl Visit for V<'_> {
    fn record_u64(&mut self, f: &Field, v: u64) { self.put(f, K_U64, v as usize) }
    fn record_i64(&mut self, f: &Field, v: i64) { self.put(f, K_I64, v as usize) }
    fn record_bool(&mut self, f: &Field, v: bool) { self.put(f, K_BOOL, v as usize) }
    fn record_str(&mut self, f: &Field, v: &str) { self.put(f, K_STR, v.len()) }
    fn record_debug(&mut self, f: &Field, _: &dyn core::fmt::Debug) { self.put(f, K_DEBUG, 0) }
}
struct Rec { accept: bool, s: Arc<St> }
impl Collect for Rec {
    fn register_callsite(&self, _: &'static Metadata<'static>) -> Interest { if self.accept { Interest::always() } else { Interest::never() } }
    fn enabled(&self, _: &Metadata<'_>) -> bool { self.accept }
    fn new_span(&self, a: &span::Attributes<'_>) -> span::Id { self.s.spans.fetch_add(1, AO::SeqCst); a.record(&mut V(&self.s)); span::Id::from_u64(1) }
    fn record(&self, _: &span::Id, _: &span::Record<'_>) {}
    fn record_follows_from(&self, _: &span::Id, _: &span::Id) {}
    fn event(&self, e: &Event<'_>) { self.s.events.fetch_add(1, AO::SeqCst); e.record(&mut V(&self.s)); }
    fn enter(&self, _: &span::Id) {}
    fn exit(&self, _: &span::Id) {}
    fn current_span(&self) -> tracing_core::span::Current { tracing_core::span::Current::unknown() }
}
fn saw(s: &St, i: usize, name: u8, kind: usize, val: usize) -> bool { s.name[i].load(AO::SeqCst) == name as usize && s.kind[i].load(AO::SeqCst) == kind && s.val[i].load(AO::SeqCst) == val }

// TIER: thorough
#[kani::proof]
#[kani::unwind(8)]
#[kani::stub(core::fmt::Formatter::pad, pad_stub)]
fn c10_event_named_fields_evaluated_once_in_order_iff_enabled() {
    let accept: bool = nd(); let x: u64 = nd(); let y: bool = nd();
    let s = new_st();
    let d = Dispatch::new(Rec { accept, s: s.clone() });
    let evals = Cell::new(0u32);
    crate::dispatch::with_default(&d, || {
        crate::event!(Level::INFO, alpha = { evals.set(evals.get() + 1); x }, beta = { evals.set(evals.get() + 10); y }, gamma = "str");
    });
    if accept {
        assert!(evals.get() == 11, "C10.event.each_field_expression_evaluated_exactly_once_when_enabled");
        assert!(s.events.load(AO::SeqCst) == 1 && s.n.load(AO::SeqCst) == 3, "C10.event.each_field_visited_exactly_once");
        assert!(saw(&s, 0, b'a', K_U64, x as usize) && saw(&s, 1, b'b', K_BOOL, y as usize) && saw(&s, 2, b'g', K_STR, 3), "C10.event.declaration_order_names_types_values");
    } else {
        assert!(evals.get() == 0 && s.events.load(AO::SeqCst) == 0, "C10.event.nothing_evaluated_when_disabled");
    }
}
// TIER: thorough
#[kani::proof]
#[kani::unwind(8)]
#[kani::stub(core::fmt::Formatter::pad, pad_stub)]
fn c10_span_shorthand_and_sigils_evaluated_once_iff_enabled() {
    let accept: bool = nd(); let count: i64 = nd(); let flag: bool = nd();
    let s = new_st();
    let d = Dispatch::new(Rec { accept, s: s.clone() });
    let evals = Cell::new(0u32);
    crate::dispatch::with_default(&d, || {
        let sp = crate::span!(Level::DEBUG, "work", count, dbg = ?{ evals.set(evals.get() + 1); flag }, unset = crate::field::Empty);
        core::mem::forget(sp);
    });
    if accept {
        assert!(evals.get() == 1 && s.spans.load(AO::SeqCst) == 1, "C10.span.expressions_evaluated_once_when_enabled");
        assert!(s.n.load(AO::SeqCst) == 2, "C10.span.empty_field_not_visited_others_once");
        assert!(saw(&s, 0, b'c', K_I64, count as usize) && saw(&s, 1, b'd', K_DEBUG, 0), "C10.span.shorthand_then_debug_sigil_in_order");
    } else {
        assert!(evals.get() == 0 && s.spans.load(AO::SeqCst) == 0, "C10.span.nothing_evaluated_when_disabled");
    }
}
