// C10 (tracing-core part) — every Value impl routes to the visitor method for its type with exactly the value;
// ValueSet::record visits the Some values of its own callsite once each, in declaration order.
use crate::field::{self, Empty, Field, FieldSet, Value, ValueSet, Visit};
use crate::callsite::Callsite;
use crate::Metadata;
use core::num::*;
use core::num::Wrapping;

const U64: u8 = 1; const I64: u8 = 2; const U128: u8 = 3; const I128: u8 = 4; const BOOL: u8 = 5; const F64: u8 = 6; const STR: u8 = 7; const BYTES: u8 = 8; const DEBUG: u8 = 9; const ERROR: u8 = 10;
/// typed recording visitor: up to 4 calls, each (method, payload bits, field index)
struct V { n: usize, kind: [u8; 4], bits: [u128; 4], idx: [usize; 4], ptr: [usize; 4] }
impl V { fn new() -> V { V { n: 0, kind: [0; 4], bits: [0; 4], idx: [9; 4], ptr: [0; 4] } }
    fn put(&mut self, k: u8, b: u128, f: &Field, p: usize) { if self.n < 4 { self.kind[self.n] = k; self.bits[self.n] = b; self.idx[self.n] = f.index(); self.ptr[self.n] = p; } self.n += 1; } }
impl Visit for V {
    fn record_u64(&mut self, f: &Field, v: u64) { self.put(U64, v as u128, f, 0) }
    fn record_i64(&mut self, f: &Field, v: i64) { self.put(I64, v as i128 as u128, f, 0) }
    fn record_u128(&mut self, f: &Field, v: u128) { self.put(U128, v, f, 0) }
    fn record_i128(&mut self, f: &Field, v: i128) { self.put(I128, v as u128, f, 0) }
    fn record_bool(&mut self, f: &Field, v: bool) { self.put(BOOL, v as u128, f, 0) }
    fn record_f64(&mut self, f: &Field, v: f64) { self.put(F64, v.to_bits() as u128, f, 0) }
    fn record_str(&mut self, f: &Field, v: &str) { self.put(STR, v.len() as u128, f, v.as_ptr() as usize) }
    fn record_bytes(&mut self, f: &Field, v: &[u8]) { self.put(BYTES, v.len() as u128, f, v.as_ptr() as usize) }
    fn record_debug(&mut self, f: &Field, v: &dyn core::fmt::Debug) { self.put(DEBUG, 0, f, v as *const dyn core::fmt::Debug as *const () as usize) }
    fn record_error(&mut self, f: &Field, v: &(dyn std::error::Error + 'static)) { self.put(ERROR, 0, f, v as *const dyn std::error::Error as *const () as usize) }
}
struct Cs2;
static CSA: Cs2 = Cs2; static CSB: Cs2 = Cs2;
impl Callsite for Cs2 { fn set_interest(&self, _: Interest) {} fn metadata(&self) -> &Metadata<'_> { &vstub::META0 } }
static NAMES: &[&str] = &["a", "b", "c", "d"];
fn fields_a() -> FieldSet { FieldSet::new(NAMES, crate::identify_callsite!(&CSA)) }
fn fields_b() -> FieldSet { FieldSet::new(NAMES, crate::identify_callsite!(&CSB)) }
fn one<T: Value + ?Sized>(v: &T) -> V { let fs = fields_a(); let f = fs.field("b").unwrap(); let mut vis = V::new(); v.record(&f, &mut vis); vis }
fn once(v: &V, kind: u8, bits: u128) -> bool { v.n == 1 && v.kind[0] == kind && v.bits[0] == bits && v.idx[0] == 1 }

#[kani::proof]
#[kani::unwind(6)]
#[kani::stub(core::fmt::Formatter::pad, pad_stub)]
fn c10_unsigned_values_route_to_record_u64_or_u128() {
    let a: u8 = nd(); let b: u16 = nd(); let c: u32 = nd(); let d: u64 = nd(); let e: usize = nd(); let g: u128 = nd();
    assert!(once(&one(&a), U64, a as u128), "C10.value.u8"); assert!(once(&one(&b), U64, b as u128), "C10.value.u16");
    assert!(once(&one(&c), U64, c as u128), "C10.value.u32"); assert!(once(&one(&d), U64, d as u128), "C10.value.u64");
    assert!(once(&one(&e), U64, e as u128), "C10.value.usize"); assert!(once(&one(&g), U128, g), "C10.value.u128");
    if let Some(z) = NonZeroU8::new(a) { assert!(once(&one(&z), U64, a as u128), "C10.value.NonZeroU8"); }
    if let Some(z) = NonZeroU16::new(b) { assert!(once(&one(&z), U64, b as u128), "C10.value.NonZeroU16"); }
    if let Some(z) = NonZeroU32::new(c) { assert!(once(&one(&z), U64, c as u128), "C10.value.NonZeroU32"); }
    if let Some(z) = NonZeroU64::new(d) { assert!(once(&one(&z), U64, d as u128), "C10.value.NonZeroU64"); }
    if let Some(z) = NonZeroUsize::new(e) { assert!(once(&one(&z), U64, e as u128), "C10.value.NonZeroUsize"); }
    if let Some(z) = NonZeroU128::new(g) { assert!(once(&one(&z), U128, g), "C10.value.NonZeroU128"); }
    assert!(once(&one(&Wrapping(d)), U64, d as u128), "C10.value.Wrapping");
}
#[kani::proof]
#[kani::unwind(6)]
#[kani::stub(core::fmt::Formatter::pad, pad_stub)]
fn c10_signed_values_route_to_record_i64_or_i128() {
    let a: i8 = nd(); let b: i16 = nd(); let c: i32 = nd(); let d: i64 = nd(); let e: isize = nd(); let g: i128 = nd();
    assert!(once(&one(&a), I64, a as i128 as u128), "C10.value.i8"); assert!(once(&one(&b), I64, b as i128 as u128), "C10.value.i16");
    assert!(once(&one(&c), I64, c as i128 as u128), "C10.value.i32"); assert!(once(&one(&d), I64, d as i128 as u128), "C10.value.i64");
    assert!(once(&one(&e), I64, e as i128 as u128), "C10.value.isize"); assert!(once(&one(&g), I128, g as u128), "C10.value.i128");
    if let Some(z) = NonZeroI8::new(a) { assert!(once(&one(&z), I64, a as i128 as u128), "C10.value.NonZeroI8"); }
    if let Some(z) = NonZeroI16::new(b) { assert!(once(&one(&z), I64, b as i128 as u128), "C10.value.NonZeroI16"); }
    if let Some(z) = NonZeroI32::new(c) { assert!(once(&one(&z), I64, c as i128 as u128), "C10.value.NonZeroI32"); }
    if let Some(z) = NonZeroI64::new(d) { assert!(once(&one(&z), I64, d as i128 as u128), "C10.value.NonZeroI64"); }
    if let Some(z) = NonZeroIsize::new(e) { assert!(once(&one(&z), I64, e as i128 as u128), "C10.value.NonZeroIsize"); }
    if let Some(z) = NonZeroI128::new(g) { assert!(once(&one(&z), I128, g as u128), "C10.value.NonZeroI128"); }
}
#[kani::proof]
#[kani::unwind(6)]
#[kani::stub(core::fmt::Formatter::pad, pad_stub)]
fn c10_bool_float_str_bytes_refs_and_empty() {
    let b: bool = nd(); let x: f64 = nd(); let y: f32 = nd();
    assert!(once(&one(&b), BOOL, b as u128), "C10.value.bool");
    assert!(once(&one(&x), F64, x.to_bits() as u128), "C10.value.f64_exact_bits");
    assert!(once(&one(&y), F64, (y as f64).to_bits() as u128), "C10.value.f32_widened");
    let s = "hello"; let v = one(s);
    assert!(v.n == 1 && v.kind[0] == STR && v.bits[0] == 5 && v.ptr[0] == s.as_ptr() as usize, "C10.value.str_same_slice");
    let bytes: &[u8] = &[1, 2, 3]; let v = one(bytes);
    assert!(v.n == 1 && v.kind[0] == BYTES && v.bits[0] == 3 && v.ptr[0] == bytes.as_ptr() as usize, "C10.value.bytes_same_slice");
    let d: u64 = nd();
    assert!(once(&one(&&d), U64, d as u128), "C10.value.reference_forwards");
    assert!(once(&one(&alloc::boxed::Box::new(d)), U64, d as u128), "C10.value.box_forwards");
    assert!(one(&Empty).n == 0, "C10.value.Empty_is_not_visited");
    let dv = field::display(&d); let v = one(&dv);
    assert!(v.n == 1 && v.kind[0] == DEBUG, "C10.value.display_sigil_goes_to_record_debug_once");
    let gv = field::debug(&d); let v = one(&gv);
    assert!(v.n == 1 && v.kind[0] == DEBUG, "C10.value.debug_sigil_goes_to_record_debug_once");
}

// BOUND: value sets of exactly 4 declared fields (each Some/None, own or foreign callsite)
#[kani::proof]
#[kani::unwind(7)]
#[kani::stub(core::fmt::Formatter::pad, pad_stub)]
fn c10_valueset_visits_own_some_values_in_order_bounded() {
    let fa = fields_a(); let fb = fields_b();
    let vals: [u64; 4] = nd(); let some: [bool; 4] = nd(); let foreign: [bool; 4] = nd();
    let names = ["a", "b", "c", "d"];
    let f0 = if foreign[0] { fb.field(names[0]).unwrap() } else { fa.field(names[0]).unwrap() };
    let f1 = if foreign[1] { fb.field(names[1]).unwrap() } else { fa.field(names[1]).unwrap() };
    let f2 = if foreign[2] { fb.field(names[2]).unwrap() } else { fa.field(names[2]).unwrap() };
    let f3 = if foreign[3] { fb.field(names[3]).unwrap() } else { fa.field(names[3]).unwrap() };
    let arr: [(&Field, Option<&dyn Value>); 4] = [
        (&f0, if some[0] { Some(&vals[0] as &dyn Value) } else { None }), (&f1, if some[1] { Some(&vals[1] as &dyn Value) } else { None }),
        (&f2, if some[2] { Some(&vals[2] as &dyn Value) } else { None }), (&f3, if some[3] { Some(&vals[3] as &dyn Value) } else { None })];
    let vs = fa.value_set(&arr);
    let mut v = V::new();
    vs.record(&mut v);
    // expected: indices i with own callsite and Some, in order
    let mut k = 0; let mut i = 0;
    while i < 4 {
        if some[i] && !foreign[i] {
            assert!(k < v.n && v.kind[k] == U64 && v.bits[k] == vals[i] as u128 && v.idx[k] == i, "C10.ValueSet.record.each_own_some_value_once_in_declaration_order_with_its_value");
            k += 1;
        }
        i += 1;
    }
    assert!(v.n == k, "C10.ValueSet.record.nothing_else_is_visited");
}

// error values: all four `dyn Error` flavours (plain, + Send, + Sync, + Send + Sync) reach record_error - not
// record_debug - exactly once, with the very same error object (so its source() chain stays available)
#[derive(Debug)]
struct VErr(u8);
impl core::fmt::Display for VErr { fn fmt(&self, _: &mut core::fmt::Formatter<'_>) -> core::fmt::Result { Ok(()) } }
impl std::error::Error for VErr {}
#[kani::proof]
#[kani::unwind(6)]
#[kani::stub(core::fmt::Formatter::pad, pad_stub)]
fn c10_error_values_route_to_record_error_in_every_flavour() {
    let e = VErr(nd());
    let here = &e as *const VErr as *const () as usize;
    let flavour: u8 = nd(); kani::assume(flavour < 4);
    let v = match flavour {
        0 => one(&e as &(dyn std::error::Error + 'static)),
        1 => one(&e as &(dyn std::error::Error + Send + 'static)),
        2 => one(&e as &(dyn std::error::Error + Sync + 'static)),
        _ => one(&e as &(dyn std::error::Error + Send + Sync + 'static)),
    };
    assert!(v.n == 1 && v.kind[0] == ERROR && v.idx[0] == 1, "C10.value.dyn_Error.routed_to_record_error_exactly_once_under_its_field");
    assert!(v.ptr[0] == here, "C10.value.dyn_Error.the_same_error_object_is_handed_over");
}
