PLAN = dict(
    id="C10", level="other", explanation="Value routing: for every primitive Value impl (u8..u128, i8..i128, usize, isize, bool, f32, f64, NonZero*, Wrapping, str, [u8], &T, Box<T>, Empty, display/debug wrappers) record() makes exactly one call of the stated visitor method with exactly the value (full domain; widening casts value-preserving; f32 widened bit-exactly), Empty makes none. ValueSet::record visits the Some values of its own callsite once each in declaration order (bounded: 4 fields, each own/foreign, Some/None). The macro-form catalogue ('evaluated once iff enabled') is not built: it needs the real macros under the global registry, measured too expensive for CBMC (DESIGN.md section 7).",
    functions_under_contract=['tracing-core/src/field.rs: impl_values! Value impls, Value for str / [u8] / &T / Box<T> / Wrapping / Empty / DisplayValue / DebugValue, ValueSet::record, FieldSet::{field,value_set}'],
    trusted_base=["Kani 0.68 / CBMC 6.11 / CaDiCaL; Kani's std build (nightly-2026-08-21), not the repo toolchain's", 'core::fmt::Formatter::pad stubbed to Ok(()) with -Z stubbing (panic-message formatting on infeasible error branches; no harness that uses it reads formatted text)', 'cfg(kani) thread_local! shim and once_cell::sync::Lazy contract stub (see overlay_additions)'],
    assumptions=["the text a %/? sigil produces is core::fmt's (only the routing to record_debug is checked)"],
    not_covered=['macro forms: field expressions evaluated exactly once when enabled and not at all when disabled; declaration order of macro-built value sets; message-first ordering (tracing/src/macros.rs valueset!/fieldset!) - not decided', 'dyn Error values', 'Span::record through the macro-declared field set (C03 covers declared/undeclared)'],
    kani=[dict(
        crate="tracing-core", tls_shim=True, once_cell_stub=True,
        modules=[dict(name="__verif_c10", attach="lib", files=["../common/core_prelude.rs", "../common/core_stub.rs", "values.kani.rs"])],
    ), dict(
        crate="tracing", tls_shim_crates=["tracing-core"], once_cell_stub=True, tag="macros", jobs=2, timeout_s=3000,
        modules=[dict(name="__verif_c10m", attach="lib", files=["macro_forms.kani.rs"])],
    )],
    manifest=dict(technique='full-domain routing contracts for every Value impl and a bounded ValueSet::record order check on the real tracing-core (Kani)',
        text="Partial: the typed-routing and ordering clauses of the statement are decided for the data layer (tracing-core); the macro layer's evaluate-once clause is not decided by this technique within the time/memory budget and is listed as not covered.",
        note='Bound: ValueSet of 4 fields. Macro forms not covered.',
        design_ref="DESIGN.md section 4, C10"),
)
