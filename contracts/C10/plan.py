import importlib.util, os
_p = os.path.join(os.path.dirname(os.path.dirname(os.path.abspath(__file__))), "C01", "plan.py")
_s = importlib.util.spec_from_file_location("plan_C01_for_C10", _p); _m = importlib.util.module_from_spec(_s); _s.loader.exec_module(_m)
PLAN = dict(
    id="C10", api_files=['tracing-core/src/field.rs'], level="other", explanation="Value routing: for every primitive Value impl (u8..u128, i8..i128, usize, isize, bool, f32, f64, NonZero*, Wrapping, str, [u8], &T, Box<T>, Empty, display/debug wrappers) record() makes exactly one call of the stated visitor method with exactly the value (full domain; widening casts value-preserving; f32 widened bit-exactly), Empty makes none. ValueSet::record visits the Some values of its own callsite once each in declaration order (bounded: 4 fields, each own/foreign, Some/None). Macro layer (real event!/span! expansions and MacroCallsite, tracing-core's global state replaced by its contracts as in C01): a catalogue of forms - named fields, shorthand, `?` / `%` sigils in every position with identifier, dotted and string-literal names, Empty, format-string message - has every field / message expression evaluated exactly once when enabled and not at all when disabled by ANY stage (published max level, cached never, dynamic enabled = false), fields visited once each in declaration order with the message first, `%` rendering Display and `?` rendering Debug.",
    functions_under_contract=['tracing-core/src/field.rs: impl_values! Value impls, Value for str / [u8] / &T / Box<T> / Wrapping / Empty / DisplayValue / DebugValue, ValueSet::record, FieldSet::{field,value_set}'],
    trusted_base=["Kani 0.68 / CBMC 6.11 / CaDiCaL; Kani's std build (nightly-2026-08-21), not the repo toolchain's", 'core::fmt::Formatter::pad stubbed to Ok(()) with -Z stubbing (panic-message formatting on infeasible error branches; no harness that uses it reads formatted text)', 'cfg(kani) thread_local! shim and once_cell::sync::Lazy contract stub (see overlay_additions)', 'macro harnesses: dispatch::get_default, LevelFilter::current and callsite::register replaced by contract stubs over tagged harness state (their contracts are C02 / C19 / C01)'],
    assumptions=["the text a %/? sigil produces is core::fmt's (only the routing to record_debug is checked)"],
    not_covered=['macro forms outside the catalogue: the level-named event shorthands are covered for the plain, one prefixed, `?x`, `%x` and message form per level, the span shorthands for the plain and one prefixed form (the remaining arms - sigils combined with prefixes, `{ fields }, message` - are separate arms that no harness names); tracing-attributes', 'Span::record through the macro-declared field set (C03 covers declared/undeclared)'],
    kani=[dict(
        crate="tracing-core", tls_shim=True, once_cell_stub=True,
        modules=[dict(name="__verif_c10", attach="lib", files=["../common/core_prelude.rs", "../common/core_stub.rs", "values.kani.rs"])],
    ), dict(
        crate="tracing", tls_shim_crates=["tracing-core"], once_cell_stub=True, tag="macros",
        modules=[dict(name="__verif_c10m", attach="lib", files=["macro_forms.kani.rs"])],
        append=[dict(file="tracing-core/src/dispatch.rs", text=_m.DISPATCH_HELPER, kind="cfg(kani) constructor helper"),
                dict(file="tracing-core/src/callsite.rs", text=_m.REG_HELPER, kind="cfg(kani) accessor helper")],
    )],
    manifest=dict(technique='full-domain routing contracts for every Value impl, a bounded ValueSet::record order check on the real tracing-core, and a catalogue of real macro expansions over contract stubs of the global state (Kani)',
        text="Typed routing and ordering are decided for the data layer (tracing-core) for all values; the macro layer's evaluate-once / not-at-all, order, naming and sigil clauses are decided for a catalogue of forms through the real macros, for every filtering stage. 'Every macro form' is a catalogue, not a proof over the macro grammar, hence `other`.",
        note='Bound: ValueSet of 4 fields. Macro forms: catalogue of 10 harnesses: 15 sigil / message arms of the level-named event shorthands, 7 plain forms, 8 event! / 4 span! prefix forms, 6 shorthand positions, 10 level-named event and 10 level-named span shorthands.',
        design_ref="DESIGN.md section 4, C10"),
)
