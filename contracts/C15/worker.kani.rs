// C15 (worker side) — appended to tracing-appender/src/worker.rs
use core::sync::atomic::{AtomicUsize, Ordering::SeqCst};
use crate::__verif_c15_chan::chan;
fn nd<T: kani::Arbitrary>() -> T { kani::any() }
fn pad_stub<'a>(_f: &mut core::fmt::Formatter<'a>, _s: &str) -> core::fmt::Result where 'a: 'a { Ok(()) }

vstatic!(WRITES: AtomicUsize = AtomicUsize::new(0));
vstatic!(FLUSHES: AtomicUsize = AtomicUsize::new(0));
vstatic!(ORDER_OK: AtomicUsize = AtomicUsize::new(1));
vstatic!(LAST_FIRST: AtomicUsize = AtomicUsize::new(usize::MAX));
vstatic!(LAST_LEN: AtomicUsize = AtomicUsize::new(0));
vstatic!(FAIL_AT: AtomicUsize = AtomicUsize::new(usize::MAX));
vstatic!(WRITES_AFTER_FLUSH: AtomicUsize = AtomicUsize::new(0));
vstatic!(SHORT: AtomicUsize = AtomicUsize::new(0));        // != 0: the writer accepts one byte per write() call
vstatic!(ACCEPTED: AtomicUsize = AtomicUsize::new(0));     // bytes the writer has ACCEPTED so far
vstatic!(ACC_HASH: AtomicUsize = AtomicUsize::new(0));     // rolling hash of the accepted bytes
struct W;
impl Write for W {
    fn write(&mut self, b: &[u8]) -> io::Result<usize> {
        if SHORT.load(SeqCst) != 0 {
            // a writer may take fewer bytes than offered (io::Write allows it): one byte per call
            if b.is_empty() { return Ok(0); }
            ACCEPTED.fetch_add(1, SeqCst); ACC_HASH.store(ACC_HASH.load(SeqCst).wrapping_mul(31).wrapping_add(b[0] as usize), SeqCst);
            return Ok(1);
        }
        let k = WRITES.fetch_add(1, SeqCst);
        if FLUSHES.load(SeqCst) > 0 { WRITES_AFTER_FLUSH.fetch_add(1, SeqCst); }
        LAST_LEN.store(b.len(), SeqCst);
        // script lines are [p, p+1] with p the script position: order is checked through the first byte
        let first = if b.is_empty() { usize::MAX } else { b[0] as usize };
        let prev = LAST_FIRST.load(SeqCst);
        if prev != usize::MAX && first <= prev { ORDER_OK.store(0, SeqCst); }
        if !(b.len() == 2 && b[1] as usize == first + 1) { ORDER_OK.store(0, SeqCst); }
        LAST_FIRST.store(first, SeqCst);
        if FAIL_AT.load(SeqCst) == k { Err(io::ErrorKind::Other.into()) } else { Ok(b.len()) }
    }
    fn flush(&mut self) -> io::Result<()> { FLUSHES.fetch_add(1, SeqCst); Ok(()) }
}
/// The channel is replaced wholesale by the contract stub (recv / try_recv are stubbed in every harness that reaches
/// them), so the worker holds `never()` receivers: no real crossbeam channel is built (building + dropping one costs
/// CBMC ~700 s) and none is dereferenced.
fn worker() -> Worker<W> { Worker::new(crossbeam_channel::never::<Msg>(), W, crossbeam_channel::never::<()>()) }

#[kani::proof]
#[kani::unwind(6)]
#[kani::stub(core::fmt::Formatter::pad, pad_stub)]
fn c15_handle_recv_and_try_recv() {
    let mut w = worker();
    let fail: bool = nd(); if fail { FAIL_AT.store(0, SeqCst); }
    let kind: u8 = nd(); kani::assume(kind < 4);
    let blocking: bool = nd();
    let st = if blocking {
        let r: Result<Msg, RecvError> = match kind { 0 => Ok(Msg::Line(vec![0, 1])), 1 => Ok(Msg::Shutdown), _ => Err(RecvError) };
        w.handle_recv(&r)
    } else {
        let r: Result<Msg, TryRecvError> = match kind { 0 => Ok(Msg::Line(vec![0, 1])), 1 => Ok(Msg::Shutdown), 2 => Err(TryRecvError::Empty), _ => Err(TryRecvError::Disconnected) };
        w.handle_try_recv(&r)
    };
    if kind == 0 {
        assert!(WRITES.load(SeqCst) == 1 && LAST_LEN.load(SeqCst) == 2 && ORDER_OK.load(SeqCst) == 1, "C15.handle.line_is_written_whole_exactly_once");
        assert!(if fail { st.is_err() } else { st.ok() == Some(WorkerState::Continue) }, "C15.handle.line_continue_or_the_writers_error");
    } else {
        assert!(WRITES.load(SeqCst) == 0, "C15.handle.no_write_without_a_line");
        let want = if kind == 1 { WorkerState::Shutdown } else if kind == 2 && !blocking { WorkerState::Empty } else { WorkerState::Disconnected };
        assert!(st.ok() == Some(want), "C15.handle.state_matches_message");
    }
    core::mem::forget(w);    // the worker's drop glue (crossbeam Receiver::drop over every channel flavour) is not under contract here
}

// a line is handed to the underlying writer WHOLE also when the writer accepts fewer bytes per call than offered - through
// both entry points (the first line of a batch goes through handle_recv, every later one through handle_try_recv)
#[kani::proof]
#[kani::unwind(6)]
#[kani::stub(core::fmt::Formatter::pad, pad_stub)]
fn c15_handle_hands_the_whole_line_to_a_writer_that_accepts_one_byte_at_a_time() {
    let mut w = worker();
    SHORT.store(1, SeqCst);
    let blocking: bool = nd();
    let st = if blocking { let r: Result<Msg, RecvError> = Ok(Msg::Line(vec![7, 9])); w.handle_recv(&r) }
             else { let r: Result<Msg, TryRecvError> = Ok(Msg::Line(vec![7, 9])); w.handle_try_recv(&r) };
    assert!(st.ok() == Some(WorkerState::Continue), "C15.handle.short_writes.continue");
    assert!(ACCEPTED.load(SeqCst) == 2 && ACC_HASH.load(SeqCst) == 7 * 31 + 9, "C15.handle.short_writes.the_whole_line_reaches_the_writer_in_order");
    core::mem::forget(w);
}

macro_rules! work_body { ($n:expr) => {{
    let mut w = worker();
    let sn: [u8; 3] = nd();
    // entries beyond the bound report Disconnected
    let script: [u8; 4] = [sn[0], if $n >= 2 { sn[1] } else { 3 }, if $n >= 3 { sn[2] } else { 3 }, 3];
    let mut i = 0; while i < 4 { kani::assume(script[i] < 4); chan::SCRIPT[i].store(script[i] as usize, SeqCst); i += 1; }
    kani::assume(script[0] != 2);                      // the blocking recv cannot report Empty
    let fail_at: usize = nd(); kani::assume(fail_at <= 4); FAIL_AT.store(if fail_at == 4 { usize::MAX } else { fail_at }, SeqCst);
    let r = w.work();
    // how many leading Line entries does the script have (the run this call must drain)?
    let mut lines = 0usize; while lines < 4 && script[lines] == 0 { lines += 1; }
    let failed = fail_at < lines;
    let written = if failed { fail_at + 1 } else { lines };
    assert!(WRITES.load(SeqCst) == written, "C15.work.each_accepted_line_written_exactly_once_until_error_or_stop");
    assert!(ORDER_OK.load(SeqCst) == 1, "C15.work.lines_written_whole_and_in_receive_order");
    assert!(WRITES_AFTER_FLUSH.load(SeqCst) == 0, "C15.work.flush_comes_last");
    if failed {
        assert!(r.is_err() && FLUSHES.load(SeqCst) == 0, "C15.work.write_error_returns_err_having_consumed_only_that_line");
        assert!(chan::POS.load(SeqCst) == fail_at + 1, "C15.work.nothing_received_past_the_failed_line");
    } else {
        assert!(FLUSHES.load(SeqCst) == 1, "C15.work.flushes_exactly_once_on_every_normal_exit");
        let stop = if lines < 4 { script[lines] } else { 3 };
        let want = match stop { 1 => WorkerState::Shutdown, 2 => WorkerState::Empty, _ => WorkerState::Disconnected };
        assert!(r.ok() == Some(want), "C15.work.returns_why_it_stopped");
    }
    core::mem::forget(w);    // see c15_handle_recv_and_try_recv
}}; }
// BOUND: receive script of at most 2 entries (Line / Shutdown / Empty / Disconnected in any order), one write failure position
#[kani::proof]
#[kani::unwind(8)]
#[kani::stub(core::fmt::Formatter::pad, pad_stub)]
#[kani::stub(crossbeam_channel::Receiver::recv, chan::recv_stub)]
#[kani::stub(crossbeam_channel::Receiver::try_recv, chan::try_recv_stub)]
fn c15_work_drains_in_order_then_flushes_bounded() { work_body!(2) }
// NOTE: 133 s measured (614 s before the worker's drop glue was taken out of the harness)
// BOUND: receive script of at most 3 entries
#[kani::proof]
#[kani::unwind(8)]
#[kani::stub(core::fmt::Formatter::pad, pad_stub)]
#[kani::stub(crossbeam_channel::Receiver::recv, chan::recv_stub)]
#[kani::stub(crossbeam_channel::Receiver::try_recv, chan::try_recv_stub)]
fn c15_work_drains_script3_bounded() { work_body!(3) }
