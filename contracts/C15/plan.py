import os
HERE = os.path.dirname(os.path.abspath(__file__))
def prep(ov):
    # the shared channel contract stub becomes a crate-level cfg(kani) module of tracing-appender
    vtag = open(os.path.join(os.path.dirname(HERE), "common", "vtag.rs")).read()   # vstatic!: see contracts/common/vtag.rs
    ov.attach_lib_module("tracing-appender", "__verif_c15_chan", vtag + "\n" + open(os.path.join(HERE, "channel_stub.rs")).read())
PLAN = dict(
    id="C15", api_files=['tracing-appender/src/non_blocking.rs', 'tracing-appender/src/worker.rs'], level="other", explanation='Sequential contracts with the crossbeam channel replaced by a contract stub (bounded FIFO; try_send fails iff full/disconnected; send blocks unless disconnected; recv/try_recv pop in order - ASSUMED, listed): Worker::handle_recv / handle_try_recv write a Line whole exactly once and map every other message to its state; Worker::work drains a scripted receive sequence (<= 3 entries) in order, writes each line once, flushes exactly once on a normal exit, returns Err on a write error having consumed only that line; NonBlocking::write / write_all: lossy mode always reports the whole buffer and written + dropped = offered (saturating counter), blocking mode is Ok iff queued and never counts; ErrorCounter::incr_saturating for every counter value. WorkerGuard::drop is not under contract (Kani compiler crash).',
    functions_under_contract=['tracing-appender/src/worker.rs: Worker::{handle_recv,handle_try_recv,work}', 'tracing-appender/src/non_blocking.rs: NonBlocking::{write,write_all}, ErrorCounter::{incr_saturating,dropped_lines}'],
    trusted_base=["Kani 0.68 / CBMC 6.11 / CaDiCaL; Kani's std build (nightly-2026-08-21), not the repo toolchain's", 'core::fmt::Formatter::pad stubbed to Ok(()) with -Z stubbing (panic-message formatting on infeasible error branches; no harness that uses it reads formatted text)', 'cfg(kani) thread_local! shim and once_cell::sync::Lazy contract stub (see overlay_additions)', 'crossbeam_channel::{Sender::try_send, send, send_timeout, Receiver::recv, try_recv} replaced by scripted contract stubs (-Z stubbing)'],
    assumptions=['the channel contract above (FIFO, exactly-once hand-over, bounded capacity)', 'thread spawn / join and all producer-worker schedules'],
    not_covered=['Drop for WorkerGuard (shutdown ordering): reaching it crashes the Kani compiler (drop-needing std TLS behind eprintln!/join)', 'real crossbeam channel', 'back-pressure timing', "worker_thread's loop (thread::Builder)"],
    kani=[dict(
        crate="tracing-appender", unmodelled_paths=["crossbeam-channel", "crossbeam_channel"], tls_shim_crates=["tracing-core", "tracing-subscriber"], once_cell_stub=True, prepare="prep",
        modules=[dict(name="__verif_c15w", attach="inline", file="tracing-appender/src/worker.rs", modpath="worker", files=["worker.kani.rs"]),
                 dict(name="__verif_c15n", attach="inline", file="tracing-appender/src/non_blocking.rs", modpath="non_blocking", files=["non_blocking.kani.rs"])],
    )],
    manifest=dict(technique='per-function contracts on the real worker / non-blocking writer with the channel replaced by an assumed contract stub (Kani)',
        text="Sequential part: each function's obligation in the 'accepted = written exactly once, in order; written + dropped = offered' argument is proved on the real code; the channel's FIFO/exactly-once behaviour and all schedules are assumptions, hence `other`.",
        note='Channel contract and schedules assumed. Worker::work bounded to scripts of 3.',
        design_ref="DESIGN.md section 4, C15"),
)
