// ---- contract stub of the crossbeam channel operations (used with -Z stubbing) ----
// Assumed contract (listed in evidence): bounded FIFO; try_send fails iff full or disconnected; send blocks (modelled:
// succeeds) unless disconnected; recv / try_recv pop in order. Here each call's outcome is scripted by the harness.
pub(crate) mod chan {
    use crate::Msg;
    use crossbeam_channel::{Receiver, RecvError, Sender, SendError, SendTimeoutError, TryRecvError, TrySendError};
    use core::sync::atomic::{AtomicUsize, Ordering::SeqCst};
    use std::time::Duration;

    // producer side log: how many sends of each kind, in which order, what was sent
    vstatic!(pub(crate) SEQ: AtomicUsize = AtomicUsize::new(0));
    vstatic!(pub(crate) SENT_LINES: AtomicUsize = AtomicUsize::new(0));
    vstatic!(pub(crate) SENT_LEN: AtomicUsize = AtomicUsize::new(0));
    vstatic!(pub(crate) SENT_SUM: AtomicUsize = AtomicUsize::new(0));
    vstatic!(pub(crate) SHUTDOWN_STAMP: AtomicUsize = AtomicUsize::new(0));
    vstatic!(pub(crate) RENDEZVOUS_STAMP: AtomicUsize = AtomicUsize::new(0));
    vstatic!(pub(crate) SHUTDOWNS: AtomicUsize = AtomicUsize::new(0));
    vstatic!(pub(crate) RENDEZVOUS: AtomicUsize = AtomicUsize::new(0));
    /// outcome of the next producer-side call: 0 ok, 1 full/timeout, 2 disconnected
    vstatic!(pub(crate) NEXT_SEND: AtomicUsize = AtomicUsize::new(0));
    vstatic!(pub(crate) NEXT_RENDEZVOUS: AtomicUsize = AtomicUsize::new(0));
    fn tick() -> usize { SEQ.fetch_add(1, SeqCst) + 1 }
    fn sum(b: &[u8]) -> usize { let mut s = 0usize; let mut i = 0; while i < b.len() { s = s.wrapping_mul(31).wrapping_add(b[i] as usize); i += 1; } s }
    fn note<T>(m: &T) {
        // T is Msg for the data channel, () for the rendezvous channel
        if core::mem::size_of::<T>() == core::mem::size_of::<Msg>() {
            let m: &Msg = unsafe { &*(m as *const T as *const Msg) };
            match m { Msg::Line(v) => { SENT_LINES.fetch_add(1, SeqCst); SENT_LEN.store(v.len(), SeqCst); SENT_SUM.store(sum(v), SeqCst); }
                      Msg::Shutdown => { SHUTDOWNS.fetch_add(1, SeqCst); SHUTDOWN_STAMP.store(tick(), SeqCst); } }
        } else { RENDEZVOUS.fetch_add(1, SeqCst); RENDEZVOUS_STAMP.store(tick(), SeqCst); }
    }
    pub(crate) fn try_send_stub<T>(_s: &Sender<T>, msg: T) -> Result<(), TrySendError<T>> {
        match NEXT_SEND.load(SeqCst) { 0 => { note(&msg); core::mem::forget(msg); Ok(()) } 1 => Err(TrySendError::Full(msg)), _ => Err(TrySendError::Disconnected(msg)) }
    }
    pub(crate) fn send_stub<T>(_s: &Sender<T>, msg: T) -> Result<(), SendError<T>> {
        match NEXT_SEND.load(SeqCst) { 0 => { note(&msg); core::mem::forget(msg); Ok(()) } _ => Err(SendError(msg)) }
    }
    pub(crate) fn send_timeout_stub<T>(_s: &Sender<T>, msg: T, _t: Duration) -> Result<(), SendTimeoutError<T>> {
        let which = if core::mem::size_of::<T>() == core::mem::size_of::<Msg>() { NEXT_SEND.load(SeqCst) } else { NEXT_RENDEZVOUS.load(SeqCst) };
        match which { 0 => { note(&msg); core::mem::forget(msg); Ok(()) } 1 => Err(SendTimeoutError::Timeout(msg)), _ => Err(SendTimeoutError::Disconnected(msg)) }
    }

    // occupancy queries: the contract says nothing links them to the outcome of an earlier try_send (another producer or
    // the worker may have run in between), so each answer is whatever the harness scripted
    vstatic!(pub(crate) NEXT_IS_FULL: AtomicUsize = AtomicUsize::new(0));
    vstatic!(pub(crate) NEXT_LEN: AtomicUsize = AtomicUsize::new(0));
    pub(crate) fn is_full_stub<T>(_s: &Sender<T>) -> bool { NEXT_IS_FULL.load(SeqCst) != 0 }
    pub(crate) fn is_empty_stub<T>(_s: &Sender<T>) -> bool { NEXT_LEN.load(SeqCst) == 0 }
    pub(crate) fn len_stub<T>(_s: &Sender<T>) -> usize { NEXT_LEN.load(SeqCst) }

    // consumer side: a script of up to 4 messages; entry kinds: 0 = Line([k, k+1]) , 1 = Shutdown, 2 = Empty (try_recv only), 3 = Disconnected
    vstatic!(pub(crate) SCRIPT: [AtomicUsize; 4] = [AtomicUsize::new(3), AtomicUsize::new(3), AtomicUsize::new(3), AtomicUsize::new(3)]);
    vstatic!(pub(crate) POS: AtomicUsize = AtomicUsize::new(0));
    vstatic!(pub(crate) RECVS: AtomicUsize = AtomicUsize::new(0));
    vstatic!(pub(crate) TRY_RECVS: AtomicUsize = AtomicUsize::new(0));
    fn next() -> usize { let p = POS.fetch_add(1, SeqCst); if p < 4 { SCRIPT[p].load(SeqCst) + 16 * p } else { 3 } }
    unsafe fn as_t<T>(m: Msg) -> T { let t = core::ptr::read(&m as *const Msg as *const T); core::mem::forget(m); t }
    pub(crate) fn recv_stub<T>(_r: &Receiver<T>) -> Result<T, RecvError> {
        RECVS.fetch_add(1, SeqCst);
        if core::mem::size_of::<T>() != core::mem::size_of::<Msg>() { return Err(RecvError); }
        let n = next(); let p = (n / 16) as u8;
        match n % 16 { 0 => Ok(unsafe { as_t(Msg::Line(vec![p, p + 1])) }), 1 => Ok(unsafe { as_t(Msg::Shutdown) }), _ => Err(RecvError) }
    }
    pub(crate) fn try_recv_stub<T>(_r: &Receiver<T>) -> Result<T, TryRecvError> {
        TRY_RECVS.fetch_add(1, SeqCst);
        let n = next(); let p = (n / 16) as u8;
        match n % 16 { 0 => Ok(unsafe { as_t(Msg::Line(vec![p, p + 1])) }), 1 => Ok(unsafe { as_t(Msg::Shutdown) }), 2 => Err(TryRecvError::Empty), _ => Err(TryRecvError::Disconnected) }
    }
}
