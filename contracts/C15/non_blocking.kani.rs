// C15 (producer side) — appended to tracing-appender/src/non_blocking.rs
use core::sync::atomic::Ordering::SeqCst as VSeq;
use crate::__verif_c15_chan::chan;
use std::io::Write as _;
fn nd<T: kani::Arbitrary>() -> T { kani::any() }
fn pad_stub<'a>(_f: &mut core::fmt::Formatter<'a>, _s: &str) -> core::fmt::Result where 'a: 'a { Ok(()) }
/// eprintln! reaches std's OUTPUT_CAPTURE thread-local (drop-needing TLS: crashes the Kani compiler); diagnostics are not part of the contract
/// the guard is built without a thread handle (no thread is spawned under Kani); `join` is only removed from the reachable code
fn join_stub<T>(_h: JoinHandle<T>) -> std::thread::Result<T> { unreachable!() }
fn eprint_stub(_a: core::fmt::Arguments<'_>) {}
fn sum(b: &[u8]) -> usize { let mut s = 0usize; let mut i = 0; while i < b.len() { s = s.wrapping_mul(31).wrapping_add(b[i] as usize); i += 1; } s }

#[kani::proof]
#[kani::unwind(3)]
fn c15_error_counter_saturates() {
    let old: usize = nd();
    let c = ErrorCounter(Arc::new(AtomicUsize::new(old)));
    c.incr_saturating();
    assert!(c.dropped_lines() == if old == usize::MAX { usize::MAX } else { old + 1 }, "C15.ErrorCounter.incr_is_saturating_add_one");
}

#[kani::proof]
#[kani::unwind(6)]
#[kani::stub(core::fmt::Formatter::pad, pad_stub)]
#[kani::stub(crossbeam_channel::Sender::try_send, chan::try_send_stub)]
#[kani::stub(crossbeam_channel::Sender::send, chan::send_stub)]
#[kani::stub(crossbeam_channel::Sender::is_full, chan::is_full_stub)]
#[kani::stub(crossbeam_channel::Sender::is_empty, chan::is_empty_stub)]
#[kani::stub(crossbeam_channel::Sender::len, chan::len_stub)]
fn c15_write_accounting_lossy_and_blocking() {
    // the Sender is never used for real: try_send / send are the contract stub; it is forgotten, not dropped
    let s: Sender<Msg> = unsafe { core::mem::zeroed() };
    let old: usize = nd(); let lossy: bool = nd();
    let mut nb = NonBlocking { error_counter: ErrorCounter(Arc::new(AtomicUsize::new(old))), channel: s, is_lossy: lossy };
    let outcome: usize = nd(); kani::assume(outcome <= 2); chan::NEXT_SEND.store(outcome, VSeq);
    // what the queue says about itself afterwards is unconstrained (other producers, the worker)
    let full: usize = nd(); kani::assume(full <= 1); chan::NEXT_IS_FULL.store(full, VSeq);
    let qlen: usize = nd(); chan::NEXT_LEN.store(qlen, VSeq);
    let buf: [u8; 3] = nd(); let n: usize = nd(); kani::assume(n <= 3);
    let via_write_all: bool = nd();
    let r = if via_write_all { nb.write_all(&buf[..n]).map(|_| n) } else { nb.write(&buf[..n]) };
    let accepted = outcome == 0;
    if accepted {
        assert!(chan::SENT_LINES.load(VSeq) == 1 && chan::SENT_LEN.load(VSeq) == n && chan::SENT_SUM.load(VSeq) == sum(&buf[..n]), "C15.write.accepted_buffer_is_queued_whole_exactly_once");
    } else {
        assert!(chan::SENT_LINES.load(VSeq) == 0, "C15.write.rejected_buffer_is_not_queued");
    }
    if lossy {
        assert!(r.ok() == Some(n), "C15.write.lossy_always_reports_the_whole_buffer");
        let want = if accepted { old } else if old == usize::MAX { usize::MAX } else { old + 1 };
        assert!(nb.error_counter.dropped_lines() == want, "C15.write.lossy_written_plus_dropped_equals_offered");
    } else {
        assert!(r.is_ok() == accepted && (!accepted || r.ok() == Some(n)), "C15.write.blocking_mode_ok_iff_queued");
        assert!(nb.error_counter.dropped_lines() == old, "C15.write.blocking_mode_never_counts_a_drop");
    }
    core::mem::forget(nb);
}

// `Drop for WorkerGuard` (Shutdown sent behind queued lines, then the rendezvous, then join) is NOT under contract: every
// harness that reaches that drop body crashes the Kani compiler (intrinsics.rs:243, a drop-needing std thread-local behind
// eprintln! / JoinHandle::join that stubbing does not remove). Listed under not_covered.
