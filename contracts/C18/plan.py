import importlib.util, os
_c01 = os.path.join(os.path.dirname(os.path.dirname(os.path.abspath(__file__))), "C01", "plan.py")
_s = importlib.util.spec_from_file_location("plan_C01_for_C18", _c01); _m = importlib.util.module_from_spec(_s); _s.loader.exec_module(_m)
SETMAX_HELPER = '''
#[cfg(kani)]
impl LevelFilter {
    /// verification-only: publish an arbitrary MAX_LEVEL (what an earlier history left behind)
    #[doc(hidden)]
    pub fn __verif_set_max(f: LevelFilter) { Self::set_max(f) }
}
'''
BUILD_HELPER = '''
#[cfg(kani)]
impl Builder {
    /// verification-only: build the LogTracer without installing it as the global logger
    #[doc(hidden)]
    pub fn __verif_build(self) -> LogTracer {
        let ignore_crates = self.ignore_crates.into_boxed_slice();
        LogTracer { ignore_crates }
    }
}
'''
PLAN = dict(
    id="C18", api_files=['tracing-log/src/lib.rs', 'tracing-log/src/log_tracer.rs'], level="other", explanation="Level / LevelFilter conversion between log and tracing is an order-preserving bijection (all 5 / 6 values, all pairs). LogTracer::log + dispatch_record: for every record level, collector verdict and published MAX_LEVEL satisfying C01's invariant (MAX_LEVEL bounds what the current collector accepts), exactly one Collect::event iff the collector accepts the record's own level and target (the collector is asked about exactly that level and that target string), else none; the event carries the record's level. An ignored crate prefix yields none (bounded: one prefix). as_trace copies level, target, file, line, module. The tracing -> log direction (log feature) and normalized_metadata are not built. Added after seed C18-3: the same one-event-iff-accepted obligation through format_trace, and that the emitted event's normalised metadata names the record's own target, level, file, line and module path.",
    functions_under_contract=['tracing-log/src/lib.rs: format_trace (the entry point without LogTracer::enabled in front), NormalizeEvent::{normalized_metadata,is_log}', 'tracing-log/src/lib.rs: AsLog / AsTrace for Level, LevelFilter, log::Record, log::Metadata; dispatch_record; loglevel_to_cs', 'tracing-log/src/log_tracer.rs: LogTracer::{enabled,log}', 'tracing/src/macros.rs (feature log): if_log_enabled! - the gate is open iff no collector has ever been installed, whatever is current now; event! + __tracing_log! + MacroCallsite::log - one log record with the event\'s level and target iff the gate is open and log accepts the level (all five levels, any cached interest / published max level)'],
    trusted_base=['tracing -> log unit: tracing_core::dispatch::{has_been_set, get_default, get_current}, LevelFilter::current, callsite::register, log::logger and log::max_level are contract stubs over tagged harness state (sticky ever-installed flag; current = a collector or the no-op one; any max level; a recording logger with an arbitrary enabled() answer)', 'tracing_core::dispatch::get_default and LevelFilter::current replaced by contract stubs over tagged harness state (contracts: C02, C19/C01); driving the real statics cross-crate is defeated by the Kani 0.68 constant/static aliasing (DESIGN.md 0a)', "Kani 0.68 / CBMC 6.11 / CaDiCaL; Kani's std build (nightly-2026-08-21), not the repo toolchain's", 'core::fmt::Formatter::pad stubbed to Ok(()) with -Z stubbing (panic-message formatting on infeasible error branches; no harness that uses it reads formatted text)', 'cfg(kani) thread_local! shim and once_cell::sync::Lazy contract stub (see overlay_additions)'],
    assumptions=["C01's max-level invariant as precondition", "the message text of the event is core::fmt's"],
    not_covered=['Span::log (the span lifecycle records of the tracing -> log direction) and the text of a mirrored record (LogValueSet formatting)', 'the log-always feature', 'ignore lists longer than two entries'],
    kani=[dict(
        crate="tracing-log", tls_shim_crates=["tracing-core"], once_cell_stub=True,
        modules=[dict(name="__verif_c18", attach="lib", files=["log_bridge.kani.rs"])],
        append=[dict(file="tracing-core/src/dispatch.rs", text=_m.DISPATCH_HELPER, kind="cfg(kani) constructor helper"),
                dict(file="tracing-core/src/metadata.rs", text=SETMAX_HELPER, kind="cfg(kani) accessor helper"),
                dict(file="tracing-log/src/log_tracer.rs", text=BUILD_HELPER, kind="cfg(kani) constructor helper")],
    ), dict(
        # tracing -> log: the gate in front of every mirrored record, in the `tracing` crate built with feature `log`
        crate="tracing", tls_shim_crates=["tracing-core"], once_cell_stub=True, tag="log-fallback", features=["log"],
        modules=[dict(name="__verif_c18f", attach="lib", files=["log_fallback.kani.rs"])],   # Dispatch::__verif_unregistered: appended by the unit above
        append=[dict(file="tracing-core/src/callsite.rs", text=_m.REG_HELPER, kind="cfg(kani) accessor helper")],
    )],
    manifest=dict(technique='full-domain conversion tables and an exactly-one-event contract on the real LogTracer / dispatch_record with a recording collector (Kani)',
        text="Partial: the log -> tracing direction is proved for all levels / verdicts under C01's invariant; the tracing -> log direction is covered for events (gate and one-record contract through the real macro expansion), not for span lifecycle records.",
        note="Assumed: C01's invariant. Not covered: Span::log, log-always, record text.",
        design_ref="DESIGN.md section 4, C18"),
)
