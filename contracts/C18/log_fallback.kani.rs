// C18, the tracing -> log direction (feature `log` without `log-always`): the gate `if_log_enabled!` that stands in front
// of every log record the macros and `Span` emit. Statement: before any collector is installed instrumentation points
// are mirrored to `log`; once a collector HAS BEEN installed - by any thread, scoped or global, still live or not - none
// are. The process-wide facts the gate may consult are replaced by contract stubs over harness state (driving
// tracing-core's own statics from this crate is ruled out by the constant/static aliasing defect, DESIGN.md):
//   has_been_set()            = "a collector has been installed at some earlier time" (sticky)
//   get_default / get_current = what is current on this thread NOW: a collector, or the no-op one (nothing ever
//                               installed here, or a scoped one that has since gone); get_current may also decline (None)
use crate::{collect::Interest, dispatch::Dispatch, span, Collect, Event, Level, Metadata};
use core::sync::atomic::{AtomicUsize, Ordering as AO};

fn nd<T: kani::Arbitrary>() -> T { kani::any() }
vstatic!(EVER_SET: AtomicUsize = AtomicUsize::new(0));
vstatic!(CUR_IS_NONE: AtomicUsize = AtomicUsize::new(0));
vstatic!(REENTRANT: AtomicUsize = AtomicUsize::new(0));
struct Nop;
impl Collect for Nop {
    fn register_callsite(&self, _: &'static Metadata<'static>) -> Interest { Interest::always() }
    fn enabled(&self, _: &Metadata<'_>) -> bool { true }
    fn new_span(&self, _: &span::Attributes<'_>) -> span::Id { span::Id::from_u64(1) }
    fn record(&self, _: &span::Id, _: &span::Record<'_>) {}
    fn record_follows_from(&self, _: &span::Id, _: &span::Id) {}
    fn event(&self, _: &Event<'_>) {}
    fn enter(&self, _: &span::Id) {}
    fn exit(&self, _: &span::Id) {}
    fn current_span(&self) -> tracing_core::span::Current { tracing_core::span::Current::unknown() }
}
fn current_now() -> Dispatch { if CUR_IS_NONE.load(AO::SeqCst) != 0 { Dispatch::none() } else { Dispatch::__verif_unregistered(Nop) } }
fn has_been_set_stub() -> bool { EVER_SET.load(AO::SeqCst) != 0 }
fn get_default_stub<T, F>(mut f: F) -> T where F: FnMut(&Dispatch) -> T { let d = current_now(); let r = f(&d); core::mem::forget(d); r }
fn get_current_stub<T>(f: impl FnOnce(&Dispatch) -> T) -> Option<T> {
    if REENTRANT.load(AO::SeqCst) != 0 { return None; }
    let d = current_now(); let r = f(&d); core::mem::forget(d); Some(r)
}

#[kani::proof]
#[kani::unwind(4)]
#[kani::stub(tracing_core::dispatch::has_been_set, has_been_set_stub)]
#[kani::stub(tracing_core::dispatch::get_default, get_default_stub)]
#[kani::stub(tracing_core::dispatch::get_current, get_current_stub)]
fn c18_log_fallback_is_taken_iff_no_collector_was_ever_installed() {
    let ever: bool = nd(); let cur_none: bool = nd(); let reentrant: bool = nd();
    kani::assume(ever || cur_none);          // nothing was ever installed => nothing is current
    EVER_SET.store(ever as usize, AO::SeqCst); CUR_IS_NONE.store(cur_none as usize, AO::SeqCst); REENTRANT.store(reentrant as usize, AO::SeqCst);
    let k: u8 = nd(); kani::assume(k < 5);
    let level = match k { 0 => Level::ERROR, 1 => Level::WARN, 2 => Level::INFO, 3 => Level::DEBUG, _ => Level::TRACE };
    let mut logged = 0u8; let mut not_logged = 0u8;
    crate::if_log_enabled! { level, { logged += 1; } else { not_logged += 1; } }
    assert!(logged + not_logged == 1, "C18.tracing_to_log.gate_takes_exactly_one_branch");
    // log's compile-time STATIC_MAX_LEVEL is TRACE in this build, so the only thing that may close the gate is a collector
    assert!((logged == 1) == !ever, "C18.tracing_to_log.mirrored_to_log_iff_no_collector_has_ever_been_installed");
    kani::cover!(ever && cur_none, "C18.reachable.scoped_collector_has_gone");
    kani::cover!(!ever, "C18.reachable.nothing_installed_yet");
}

// ---- the real `event!` expansion with feature `log`: one log record per event while the gate is open, none once it is shut.
// `log`'s own process-wide state is replaced by contract stubs as well: log::max_level() (any value) and log::logger()
// (a recording logger whose `enabled` answer is arbitrary). tracing-core's cache state is whatever its contracts allow
// (C01): any published max level, any cached interest - neither may change whether the record is mirrored.
use tracing_core::LevelFilter;
vstatic!(CUR_MAX: AtomicUsize = AtomicUsize::new(5));
vstatic!(NEXT_CACHED: AtomicUsize = AtomicUsize::new(1));
vstatic!(LOG_MAX: AtomicUsize = AtomicUsize::new(5));
vstatic!(LOGGER_ENABLED: AtomicUsize = AtomicUsize::new(1));
vstatic!(LOG_RECORDS: AtomicUsize = AtomicUsize::new(0));
vstatic!(LOG_LAST_LEVEL: AtomicUsize = AtomicUsize::new(0));
vstatic!(LOG_TARGET_OK: AtomicUsize = AtomicUsize::new(0));
fn current_stub() -> LevelFilter {
    match CUR_MAX.load(AO::SeqCst) { 0 => LevelFilter::OFF, 1 => LevelFilter::ERROR, 2 => LevelFilter::WARN, 3 => LevelFilter::INFO, 4 => LevelFilter::DEBUG, _ => LevelFilter::TRACE }
}
fn register_stub(reg: &'static tracing_core::callsite::Registration) {
    let cs: &'static dyn tracing_core::callsite::Callsite = reg.__verif_callsite();
    cs.set_interest(match NEXT_CACHED.load(AO::SeqCst) { 0 => Interest::never(), 1 => Interest::sometimes(), _ => Interest::always() });
}
struct RecLogger;
static REC_LOGGER: RecLogger = RecLogger;
impl crate::log::Log for RecLogger {
    fn enabled(&self, _: &crate::log::Metadata<'_>) -> bool { LOGGER_ENABLED.load(AO::SeqCst) != 0 }
    fn log(&self, r: &crate::log::Record<'_>) {
        LOG_RECORDS.fetch_add(1, AO::SeqCst);
        LOG_LAST_LEVEL.store(r.level() as usize, AO::SeqCst);
        LOG_TARGET_OK.store((r.target().as_bytes() == b"c18::t") as usize, AO::SeqCst);
    }
    fn flush(&self) {}
}
fn logger_stub() -> &'static dyn crate::log::Log { &REC_LOGGER }
fn max_level_stub() -> crate::log::LevelFilter {
    use crate::log::LevelFilter as L;
    match LOG_MAX.load(AO::SeqCst) { 0 => L::Off, 1 => L::Error, 2 => L::Warn, 3 => L::Info, 4 => L::Debug, _ => L::Trace }
}
fn pad_stub<'a>(_f: &mut core::fmt::Formatter<'a>, _s: &str) -> core::fmt::Result where 'a: 'a { Ok(()) }

#[kani::proof]
#[kani::unwind(8)]
#[kani::stub(core::fmt::Formatter::pad, pad_stub)]
#[kani::stub(tracing_core::dispatch::has_been_set, has_been_set_stub)]
#[kani::stub(tracing_core::dispatch::get_default, get_default_stub)]
#[kani::stub(tracing_core::dispatch::get_current, get_current_stub)]
#[kani::stub(tracing_core::metadata::LevelFilter::current, current_stub)]
#[kani::stub(tracing_core::callsite::register, register_stub)]
#[kani::stub(log::logger, logger_stub)]
#[kani::stub(log::max_level, max_level_stub)]
fn c18_event_is_mirrored_to_log_once_with_its_level_and_target_iff_no_collector_was_ever_installed() {
    fn emit(k: u8) {
        match k {
            1 => crate::event!(target: "c18::t", Level::ERROR, answer = 42u64),
            2 => crate::event!(target: "c18::t", Level::WARN, answer = 42u64),
            3 => crate::event!(target: "c18::t", Level::INFO, answer = 42u64),
            4 => crate::event!(target: "c18::t", Level::DEBUG, answer = 42u64),
            _ => crate::event!(target: "c18::t", Level::TRACE, answer = 42u64),
        }
    }
    let ever: bool = nd(); let cur_none: bool = nd(); let reentrant: bool = nd();
    kani::assume(ever || cur_none);
    EVER_SET.store(ever as usize, AO::SeqCst); CUR_IS_NONE.store(cur_none as usize, AO::SeqCst); REENTRANT.store(reentrant as usize, AO::SeqCst);
    let (max, cached, log_max): (u8, u8, u8) = (nd(), nd(), nd()); kani::assume(max <= 5 && cached <= 2 && log_max <= 5);
    CUR_MAX.store(max as usize, AO::SeqCst); NEXT_CACHED.store(cached as usize, AO::SeqCst); LOG_MAX.store(log_max as usize, AO::SeqCst);
    let logger_on: bool = nd(); LOGGER_ENABLED.store(logger_on as usize, AO::SeqCst);
    let k: u8 = nd(); kani::assume(k >= 1 && k <= 5);
    emit(k);
    // log::Level as usize is Error = 1 .. Trace = 5, the same rank as the event's level
    let want = !ever && k <= log_max && logger_on;
    assert!(LOG_RECORDS.load(AO::SeqCst) == want as usize, "C18.tracing_to_log.event.one_record_iff_no_collector_ever_and_log_accepts_the_level");
    if want {
        assert!(LOG_LAST_LEVEL.load(AO::SeqCst) == k as usize, "C18.tracing_to_log.event.record_has_the_events_level");
        assert!(LOG_TARGET_OK.load(AO::SeqCst) == 1, "C18.tracing_to_log.event.record_has_the_events_target");
    }
    kani::cover!(want && max == 0, "C18.reachable.mirrored_although_tracing_max_level_is_off");
}

// Measured and dropped: the same treatment of the span lifecycle steps (`span!` at five levels, enter / exit / drop, a
// logger that counts records per target) did not finish in 900 s (Span's drop glue and Dispatch handles); `Span::log`
// stays under not_covered.
