// C18 — log -> tracing bridge (real tracing-log: LogTracer, dispatch_record, AsLog/AsTrace).
use crate::{AsLog, AsTrace, LogTracer};
use tracing_core::{collect::{Collect, Interest}, dispatch::{self, Dispatch}, span, Event, LevelFilter, Metadata};
use core::sync::atomic::{AtomicUsize, Ordering::SeqCst};

fn nd<T: kani::Arbitrary>() -> T { kani::any() }
fn pad_stub<'a>(_f: &mut core::fmt::Formatter<'a>, _s: &str) -> core::fmt::Result where 'a: 'a { Ok(()) }
fn tl(k: u8) -> tracing_core::Level { match k { 1 => tracing_core::Level::ERROR, 2 => tracing_core::Level::WARN, 3 => tracing_core::Level::INFO, 4 => tracing_core::Level::DEBUG, _ => tracing_core::Level::TRACE } }
fn ll(k: u8) -> log::Level { match k { 1 => log::Level::Error, 2 => log::Level::Warn, 3 => log::Level::Info, 4 => log::Level::Debug, _ => log::Level::Trace } }
fn tf(k: u8) -> LevelFilter { match k { 0 => LevelFilter::OFF, 1 => LevelFilter::ERROR, 2 => LevelFilter::WARN, 3 => LevelFilter::INFO, 4 => LevelFilter::DEBUG, _ => LevelFilter::TRACE } }
fn lf(k: u8) -> log::LevelFilter { match k { 0 => log::LevelFilter::Off, 1 => log::LevelFilter::Error, 2 => log::LevelFilter::Warn, 3 => log::LevelFilter::Info, 4 => log::LevelFilter::Debug, _ => log::LevelFilter::Trace } }

#[kani::proof]
fn c18_level_conversion_is_an_order_preserving_bijection() {
    let a: u8 = nd(); let b: u8 = nd(); kani::assume(a >= 1 && a <= 5 && b >= 1 && b <= 5);
    assert!(tl(a).as_log() == ll(a) && ll(a).as_trace() == tl(a), "C18.level.as_log_and_as_trace_are_inverse");
    assert!((ll(a) <= ll(b)) == (tl(a) <= tl(b)) && (ll(a) == ll(b)) == (a == b), "C18.level.order_preserved");
    let f: u8 = nd(); let g: u8 = nd(); kani::assume(f <= 5 && g <= 5);
    assert!(tf(f).as_log() == lf(f) && lf(f).as_trace() == tf(f), "C18.filter.as_log_and_as_trace_are_inverse");
    assert!((lf(f) <= lf(g)) == (tf(f) <= tf(g)), "C18.filter.order_preserved");
    assert!((ll(a) <= lf(f)) == (tl(a) <= tf(f)), "C18.level_vs_filter.enabledness_preserved");
}

// The bridge reads two pieces of tracing-core's global state: the thread's current default dispatcher
// (dispatch::get_default) and the published maximum level (LevelFilter::current).  Both are under contract elsewhere
// (C02: get_default hands the closure the innermost live scope's dispatcher, else the global one; C19/C01: current()
// reads back what was published), so here they are CONTRACT STUBS over tagged harness state.  Driving the real statics
// from this crate is not an option under Kani 0.68: SCOPED_COUNT / GLOBAL_INIT start as eight zero bytes and MAX_LEVEL
// as 5, the compiler aliases the constants Level::TRACE / LevelFilter::OFF to them, and with_default / set_max WRITE
// them (DESIGN.md 0a; the alias scan made those harnesses undecided under every code-generation order).
// Recording state lives inside the collector (heap).
vstatic!(CUR_DISPATCH: AtomicUsize = AtomicUsize::new(0));
vstatic!(CUR_MAX: AtomicUsize = AtomicUsize::new(5));
fn get_default_stub<T, F>(mut f: F) -> T where F: FnMut(&Dispatch) -> T {
    let p = CUR_DISPATCH.load(SeqCst) as *const Dispatch;
    assert!(!p.is_null(), "C18.setup.a_current_dispatcher_is_installed");
    f(unsafe { &*p })
}
fn current_stub() -> LevelFilter { tf(CUR_MAX.load(SeqCst) as u8) }
fn install(d: &Dispatch, max: u8) { CUR_DISPATCH.store(d as *const Dispatch as usize, SeqCst); CUR_MAX.store(max as usize, SeqCst); }
use std::sync::Arc;
struct St { enabled_calls: AtomicUsize, events: AtomicUsize, meta_level_ok: AtomicUsize, meta_target_ok: AtomicUsize, event_level: AtomicUsize, want_level: AtomicUsize, norm: AtomicUsize, have: AtomicUsize }
fn st(want: u8) -> Arc<St> { Arc::new(St { enabled_calls: AtomicUsize::new(0), events: AtomicUsize::new(0), meta_level_ok: AtomicUsize::new(1), meta_target_ok: AtomicUsize::new(1), event_level: AtomicUsize::new(0), want_level: AtomicUsize::new(want as usize), norm: AtomicUsize::new(0), have: AtomicUsize::new(7) }) }
const TARGET: &str = "my_crate::module";
const FILE: &str = "src/f.rs"; const MODP: &str = "my_crate::m";
struct Rec { accept: bool, s: Arc<St> }
impl Collect for Rec {
    fn register_callsite(&self, _: &'static Metadata<'static>) -> Interest { Interest::sometimes() }
    fn enabled(&self, m: &Metadata<'_>) -> bool {
        self.s.enabled_calls.fetch_add(1, SeqCst);
        if *m.level() != tl(self.s.want_level.load(SeqCst) as u8) { self.s.meta_level_ok.store(0, SeqCst); }
        if m.target().as_ptr() != TARGET.as_ptr() || m.target().len() != TARGET.len() { self.s.meta_target_ok.store(0, SeqCst); }
        self.accept
    }
    fn new_span(&self, _: &span::Attributes<'_>) -> span::Id { span::Id::from_u64(1) }
    fn record(&self, _: &span::Id, _: &span::Record<'_>) {}
    fn record_follows_from(&self, _: &span::Id, _: &span::Id) {}
    fn event(&self, e: &Event<'_>) {
        self.s.events.fetch_add(1, SeqCst);
        let l = e.metadata().level();
        // norm: 0 = not asked, 1 = normalised metadata names the record's own target / level / file / line / module, 2 = it does not
        if self.s.norm.load(SeqCst) == 9 {
            use crate::NormalizeEvent;
            let ok = match e.normalized_metadata() {
                Some(m) => e.is_log() && m.target().as_ptr() == TARGET.as_ptr() && m.target().len() == TARGET.len()
                    && *m.level() == tl(self.s.want_level.load(SeqCst) as u8)
                    && { let have = self.s.have.load(SeqCst);   // bit 0: file, bit 1: line, bit 2: module path - each part independently present or absent
                         m.line() == (if have & 2 != 0 { Some(7) } else { None })
                         && m.file().map(|f| (f.as_ptr(), f.len())) == (if have & 1 != 0 { Some((FILE.as_ptr(), FILE.len())) } else { None })
                         && m.module_path().map(|f| (f.as_ptr(), f.len())) == (if have & 4 != 0 { Some((MODP.as_ptr(), MODP.len())) } else { None }) },
                None => false,
            };
            self.s.norm.store(if ok { 1 } else { 2 }, SeqCst);
        }
        self.s.event_level.store(if *l == tracing_core::Level::ERROR { 1 } else if *l == tracing_core::Level::WARN { 2 } else if *l == tracing_core::Level::INFO { 3 } else if *l == tracing_core::Level::DEBUG { 4 } else { 5 }, SeqCst);
    }
    fn enter(&self, _: &span::Id) {}
    fn exit(&self, _: &span::Id) {}
    fn current_span(&self) -> span::Current { span::Current::unknown() }
}

#[kani::proof]
#[kani::unwind(20)]
#[kani::stub(core::fmt::Formatter::pad, pad_stub)]
#[kani::stub(tracing_core::dispatch::get_default, get_default_stub)]
#[kani::stub(tracing_core::metadata::LevelFilter::current, current_stub)]
fn c18_one_event_iff_collector_accepts_level_and_target() {
    use log::Log;
    let lvl: u8 = nd(); kani::assume(lvl >= 1 && lvl <= 5);
    let accept: bool = nd(); let max: u8 = nd(); kani::assume(max <= 5);
    // C01's invariant as precondition: the published MAX_LEVEL bounds what the current collector accepts
    kani::assume(!accept || lvl <= max);
    let s = st(lvl);
    let d = Dispatch::__verif_unregistered(Rec { accept, s: s.clone() });
    install(&d, max);
    assert!(LevelFilter::current() == tf(max), "C18.setup.max_level_reads_back_across_crates");
    let tracer = LogTracer::new();
    {
        let rec = log::Record::builder().args(format_args!("hello")).level(ll(lvl)).target(TARGET).file(Some("f.rs")).line(Some(7)).module_path(Some("m")).build();
        tracer.log(&rec);
    }
    assert!(s.events.load(SeqCst) == accept as usize, "C18.bridge.exactly_one_event_iff_collector_accepts_else_none");
    assert!(!accept || s.event_level.load(SeqCst) == lvl as usize, "C18.bridge.event_carries_the_records_level");
    assert!(s.meta_level_ok.load(SeqCst) == 1 && s.meta_target_ok.load(SeqCst) == 1, "C18.bridge.collector_is_asked_about_the_records_own_level_and_target");
    assert!(lvl > max || s.enabled_calls.load(SeqCst) >= 1, "C18.bridge.collector_is_consulted_when_max_level_allows");
}

// BOUND: ignore lists of one or two crate prefixes (the matching one first, second, or absent) against one fixed target
#[kani::proof]
#[kani::unwind(20)]
#[kani::stub(core::fmt::Formatter::pad, pad_stub)]
#[kani::stub(tracing_core::dispatch::get_default, get_default_stub)]
#[kani::stub(tracing_core::metadata::LevelFilter::current, current_stub)]
fn c18_ignored_crate_prefix_yields_no_event_bounded() {
    use log::Log;
    let s = st(3);
    let d = Dispatch::__verif_unregistered(Rec { accept: true, s: s.clone() });
    install(&d, 5);
    // which list: 0 = [my_crate], 1 = [other], 2 = [my_crate, other], 3 = [other, my_crate], 4 = [other, noisy]
    let shape: u8 = nd(); kani::assume(shape < 5);
    let b = LogTracer::builder();
    let b = match shape { 0 => b.ignore_crate("my_crate"), 1 => b.ignore_crate("other"), 2 => b.ignore_crate("my_crate").ignore_crate("other"),
                          3 => b.ignore_crate("other").ignore_crate("my_crate"), _ => b.ignore_crate("other").ignore_crate("noisy") };
    let tracer = b.__verif_build();
    let ignored = shape == 0 || shape == 2 || shape == 3;
    {
        let rec = log::Record::builder().args(format_args!("hello")).level(log::Level::Info).target(TARGET).build();
        tracer.log(&rec);
    }
    kani::cover!(shape == 2 && s.events.load(SeqCst) == 0, "C18.reachable.two_entries_first_matches_and_record_dropped");
    kani::cover!(shape == 4 && s.events.load(SeqCst) == 1, "C18.reachable.two_entries_none_matches_and_record_bridged");
    assert!(s.events.load(SeqCst) == (!ignored) as usize, "C18.bridge.target_under_ANY_ignored_prefix_yields_none_otherwise_one");
}

#[kani::proof]
#[kani::unwind(20)]
#[kani::stub(core::fmt::Formatter::pad, pad_stub)]
fn c18_as_trace_copies_level_and_target() {
    let lvl: u8 = nd(); kani::assume(lvl >= 1 && lvl <= 5);
    let rec = log::Record::builder().args(format_args!("x")).level(ll(lvl)).target(TARGET).file(Some("f.rs")).line(Some(7)).module_path(Some("m")).build();
    let m = rec.as_trace();
    assert!(*m.level() == tl(lvl), "C18.as_trace.level");
    assert!(m.target().as_ptr() == TARGET.as_ptr() && m.target().len() == TARGET.len(), "C18.as_trace.target");
    assert!(m.line() == Some(7) && m.file().map(|f| f.len()) == Some(4) && m.module_path().map(|f| f.len()) == Some(1), "C18.as_trace.file_line_module");
    assert!(m.is_event(), "C18.as_trace.kind_event");
}

// the OTHER public entry point, format_trace (what env_logger integration installs): it has no LogTracer::enabled in
// front of it, so dispatch_record's own question to the collector is the only gate
#[kani::proof]
#[kani::unwind(20)]
#[kani::stub(core::fmt::Formatter::pad, pad_stub)]
#[kani::stub(tracing_core::dispatch::get_default, get_default_stub)]
#[kani::stub(tracing_core::metadata::LevelFilter::current, current_stub)]
fn c18_format_trace_emits_one_event_iff_collector_accepts() {
    let lvl: u8 = nd(); kani::assume(lvl >= 1 && lvl <= 5);
    let accept: bool = nd();
    let s = st(lvl);
    let d = Dispatch::__verif_unregistered(Rec { accept, s: s.clone() });
    install(&d, 5);
    let rec = log::Record::builder().args(format_args!("hello")).level(ll(lvl)).target(TARGET).file(Some("f.rs")).line(Some(7)).module_path(Some("m")).build();
    let r = crate::format_trace(&rec);
    assert!(r.is_ok(), "C18.format_trace.ok");
    assert!(s.enabled_calls.load(SeqCst) >= 1, "C18.format_trace.collector_is_asked");
    assert!(s.events.load(SeqCst) == accept as usize, "C18.format_trace.exactly_one_event_iff_collector_accepts_else_none");
    assert!(!accept || s.event_level.load(SeqCst) == lvl as usize, "C18.format_trace.event_carries_the_records_level");
    assert!(s.meta_level_ok.load(SeqCst) == 1 && s.meta_target_ok.load(SeqCst) == 1, "C18.format_trace.collector_is_asked_about_the_records_own_level_and_target");
}

// after normalisation the event names the record's own target, level, file, line and module path
#[kani::proof]
#[kani::unwind(20)]
#[kani::stub(core::fmt::Formatter::pad, pad_stub)]
#[kani::stub(tracing_core::dispatch::get_default, get_default_stub)]
#[kani::stub(tracing_core::metadata::LevelFilter::current, current_stub)]
fn c18_normalized_metadata_names_the_records_own_origin() {
    let lvl: u8 = nd(); kani::assume(lvl >= 1 && lvl <= 5);
    let s = st(lvl); s.norm.store(9, SeqCst);
    let have: usize = nd(); kani::assume(have < 8); s.have.store(have, SeqCst);
    let d = Dispatch::__verif_unregistered(Rec { accept: true, s: s.clone() });
    install(&d, 5);
    let rec = log::Record::builder().args(format_args!("hello")).level(ll(lvl)).target(TARGET)
        .file(if have & 1 != 0 { Some(FILE) } else { None }).line(if have & 2 != 0 { Some(7) } else { None }).module_path(if have & 4 != 0 { Some(MODP) } else { None }).build();
    let _ = crate::format_trace(&rec);
    assert!(s.events.load(SeqCst) == 1, "C18.normalize.one_event");
    assert!(s.norm.load(SeqCst) == 1, "C18.normalize.metadata_carries_the_records_target_level_and_exactly_the_location_parts_it_had");
}
