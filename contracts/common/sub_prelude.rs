// ---- shared prelude for harness modules inside tracing-subscriber (textually included) ----
// A stub root collector that implements LookupSpan over a small symbolic span table (parent links and the
// per-span FilterMap that the real Registry stores in DataInner.filter_map), recording layers and filters.
#[allow(unused_imports)]
use crate::subscribe::{Subscribe as VSubscribe, Context as VContext, CollectExt as VCollectExt, Filter as VFilter};
#[allow(unused_imports)]
use crate::registry::{LookupSpan as VLookupSpan, SpanData as VSpanData, Extensions as VExtensions, ExtensionsMut as VExtensionsMut};
#[allow(unused_imports)]
use crate::filter::{FilterId as VFilterId, FilterMap as VFilterMap, FilterState as VFilterState, FILTERING as VFILTERING};
#[allow(unused_imports)]
use tracing_core::{Collect as VCollect, Event as VEvent, Metadata as VMetadata, collect::Interest as VInterest, span as vspan, callsite::Callsite as VCallsite, metadata::Kind as VKind, Level as VLevel, LevelFilter as VLevelFilter, Dispatch as VDispatch};
#[allow(unused_imports)]
use core::sync::atomic::{AtomicUsize as VAtomicUsize, AtomicU64 as VAtomicU64, Ordering::SeqCst as VSeq};

pub(crate) fn nd<T: kani::Arbitrary>() -> T { kani::any() }
pub(crate) fn pad_stub<'a>(_f: &mut core::fmt::Formatter<'a>, _s: &str) -> core::fmt::Result where 'a: 'a { Ok(()) }
pub(crate) fn stub_pool_clear<T: sharded_slab::Clear + Default, C: sharded_slab::Config>(_p: &sharded_slab::Pool<T, C>, _key: usize) -> bool { true }
pub(crate) fn vfilter_of(k: u8) -> Option<VLevelFilter> {
    match k { 0 => Some(VLevelFilter::OFF), 1 => Some(VLevelFilter::ERROR), 2 => Some(VLevelFilter::WARN), 3 => Some(VLevelFilter::INFO), 4 => Some(VLevelFilter::DEBUG), 5 => Some(VLevelFilter::TRACE), _ => None }
}
pub(crate) fn vrank(h: Option<VLevelFilter>) -> u8 {
    match h { None => 6, Some(f) => if f == VLevelFilter::OFF { 0 } else if f == VLevelFilter::ERROR { 1 } else if f == VLevelFilter::WARN { 2 } else if f == VLevelFilter::INFO { 3 } else if f == VLevelFilter::DEBUG { 4 } else { 5 } }
}
pub(crate) fn vinterest_of(k: u8) -> VInterest { match k { 0 => VInterest::never(), 1 => VInterest::sometimes(), _ => VInterest::always() } }
pub(crate) fn vicode(i: &VInterest) -> u8 { if i.is_never() { 0 } else if i.is_sometimes() { 1 } else { 2 } }

pub(crate) struct VCs;
pub(crate) static VCS: VCs = VCs;
// one static callsite per level (rank 1..=5); VMETA[3] (INFO event) is the default
pub(crate) static VMETA_ERROR: VMetadata<'static> = tracing_core::metadata! { name: "e", target: "t", level: VLevel::ERROR, fields: &[], callsite: &VCS, kind: VKind::EVENT, };
pub(crate) static VMETA_WARN: VMetadata<'static> = tracing_core::metadata! { name: "w", target: "t", level: VLevel::WARN, fields: &[], callsite: &VCS, kind: VKind::EVENT, };
pub(crate) static VMETA: VMetadata<'static> = tracing_core::metadata! { name: "i", target: "t", level: VLevel::INFO, fields: &[], callsite: &VCS, kind: VKind::EVENT, };
pub(crate) static VMETA_DEBUG: VMetadata<'static> = tracing_core::metadata! { name: "d", target: "t", level: VLevel::DEBUG, fields: &[], callsite: &VCS, kind: VKind::EVENT, };
pub(crate) static VMETA_TRACE: VMetadata<'static> = tracing_core::metadata! { name: "t", target: "t", level: VLevel::TRACE, fields: &[], callsite: &VCS, kind: VKind::EVENT, };
pub(crate) static VMETA_SPAN: VMetadata<'static> = tracing_core::metadata! { name: "s", target: "t", level: VLevel::INFO, fields: &[], callsite: &VCS, kind: VKind::SPAN, };
impl VCallsite for VCs { fn set_interest(&self, _: VInterest) {} fn metadata(&self) -> &VMetadata<'_> { &VMETA } }
pub(crate) fn vmeta_of(rank: u8) -> &'static VMetadata<'static> { match rank { 1 => &VMETA_ERROR, 2 => &VMETA_WARN, 3 => &VMETA, 4 => &VMETA_DEBUG, _ => &VMETA_TRACE } }

/// Span table of the stub root: ids 1..=4; parent[i] (0 = none) and the stored per-span filter bits.
pub(crate) const VNSPAN: usize = 4;
pub(crate) struct VRoot { pub(crate) next_filter: u8, pub(crate) parent: [u64; VNSPAN + 1], pub(crate) bits: [u64; VNSPAN + 1], pub(crate) exists: [bool; VNSPAN + 1], pub(crate) current: u64 }
pub(crate) struct VData { id: u64, parent: Option<vspan::Id>, bits: u64 }
impl VData { pub(crate) fn __chain(k: u64) -> VData { VData { id: k, parent: if k <= 1 { None } else { Some(vspan::Id::from_u64(k - 1)) }, bits: 0 } } }
impl<'a> VSpanData<'a> for VData {
    fn id(&self) -> vspan::Id { vspan::Id::from_u64(self.id) }
    fn metadata(&self) -> &'static VMetadata<'static> { &VMETA_SPAN }
    fn parent(&self) -> Option<&vspan::Id> { self.parent.as_ref() }
    fn extensions(&self) -> VExtensions<'_> { unreachable!() }
    fn extensions_mut(&self) -> VExtensionsMut<'_> { unreachable!() }
    fn is_enabled_for(&self, filter: VFilterId) -> bool { VFilterMap::__verif_from_bits(self.bits).is_enabled(filter) }
}
impl<'a> VLookupSpan<'a> for VRoot {
    type Data = VData;
    fn span_data(&'a self, id: &vspan::Id) -> Option<VData> {
        let k = id.into_u64();
        if k == 0 || k as usize > VNSPAN || !self.exists[k as usize] { return None; }
        let p = self.parent[k as usize];
        Some(VData { id: k, parent: if p == 0 { None } else { Some(vspan::Id::from_u64(p)) }, bits: self.bits[k as usize] })
    }
    fn register_filter(&mut self) -> VFilterId { let id = VFilterId::new(self.next_filter); self.next_filter += 1; id }
}
vstatic!(pub(crate) VROOT_EVENTS: VAtomicUsize = VAtomicUsize::new(0));
impl VCollect for VRoot {
    // the three FilterState-facing lines of the real Registry (sharded.rs enabled / event_enabled / register_callsite)
    fn register_callsite(&self, _: &'static VMetadata<'static>) -> VInterest {
        if self.next_filter > 0 { return VFilterState::take_interest().unwrap_or_else(VInterest::always); }
        VInterest::always()
    }
    fn enabled(&self, _: &VMetadata<'_>) -> bool { if self.next_filter > 0 { VFilterState::event_enabled() } else { true } }
    fn event_enabled(&self, _: &VEvent<'_>) -> bool { if self.next_filter > 0 { VFilterState::event_enabled() } else { true } }
    fn new_span(&self, _: &vspan::Attributes<'_>) -> vspan::Id { vspan::Id::from_u64(1) }
    fn record(&self, _: &vspan::Id, _: &vspan::Record<'_>) {}
    fn record_follows_from(&self, _: &vspan::Id, _: &vspan::Id) {}
    fn event(&self, _: &VEvent<'_>) { VROOT_EVENTS.fetch_add(1, VSeq); }
    fn enter(&self, _: &vspan::Id) {}
    fn exit(&self, _: &vspan::Id) {}
    fn current_span(&self) -> vspan::Current { if self.current == 0 { vspan::Current::none() } else { vspan::Current::new(vspan::Id::from_u64(self.current), &VMETA_SPAN) } }
}
impl VRoot {
    pub(crate) fn empty() -> VRoot { VRoot { next_filter: 0, parent: [0; VNSPAN + 1], bits: [0; VNSPAN + 1], exists: [false; VNSPAN + 1], current: 0 } }
}

/// Recording layer: counts callbacks per kind in a static row chosen by `i`.
pub(crate) const VK_EVENT: usize = 0; pub(crate) const VK_NEW_SPAN: usize = 1; pub(crate) const VK_ENTER: usize = 2; pub(crate) const VK_EXIT: usize = 3;
pub(crate) const VK_CLOSE: usize = 4; pub(crate) const VK_RECORD: usize = 5; pub(crate) const VK_ENABLED: usize = 6; pub(crate) const VK_REGISTER: usize = 7; pub(crate) const VK_IDCHANGE: usize = 8; pub(crate) const VK_FOLLOWS: usize = 9;
macro_rules! vz { () => { VAtomicUsize::new(0) }; }
vstatic!(pub(crate) VSEEN: [[VAtomicUsize; 10]; 3] = [[vz!(), vz!(), vz!(), vz!(), vz!(), vz!(), vz!(), vz!(), vz!(), vz!()], [vz!(), vz!(), vz!(), vz!(), vz!(), vz!(), vz!(), vz!(), vz!(), vz!()], [vz!(), vz!(), vz!(), vz!(), vz!(), vz!(), vz!(), vz!(), vz!(), vz!()]]);
pub(crate) fn vseen(i: usize, k: usize) -> usize { VSEEN[i][k].load(VSeq) }
pub(crate) struct VRec { pub(crate) i: usize, pub(crate) global_enabled: bool, pub(crate) interest: u8, pub(crate) hint: u8 }
impl VRec { pub(crate) fn plain(i: usize) -> VRec { VRec { i, global_enabled: true, interest: 2, hint: 6 } } }
impl<C: VCollect> VSubscribe<C> for VRec {
    fn register_callsite(&self, _: &'static VMetadata<'static>) -> VInterest { VSEEN[self.i][VK_REGISTER].fetch_add(1, VSeq); vinterest_of(self.interest) }
    fn enabled(&self, _: &VMetadata<'_>, _: VContext<'_, C>) -> bool { VSEEN[self.i][VK_ENABLED].fetch_add(1, VSeq); self.global_enabled }
    fn max_level_hint(&self) -> Option<VLevelFilter> { vfilter_of(self.hint) }
    fn on_new_span(&self, _: &vspan::Attributes<'_>, _: &vspan::Id, _: VContext<'_, C>) { VSEEN[self.i][VK_NEW_SPAN].fetch_add(1, VSeq); }
    fn on_record(&self, _: &vspan::Id, _: &vspan::Record<'_>, _: VContext<'_, C>) { VSEEN[self.i][VK_RECORD].fetch_add(1, VSeq); }
    fn on_follows_from(&self, _: &vspan::Id, _: &vspan::Id, _: VContext<'_, C>) { VSEEN[self.i][VK_FOLLOWS].fetch_add(1, VSeq); }
    fn on_event(&self, _: &VEvent<'_>, _: VContext<'_, C>) { VSEEN[self.i][VK_EVENT].fetch_add(1, VSeq); }
    fn on_enter(&self, _: &vspan::Id, _: VContext<'_, C>) { VSEEN[self.i][VK_ENTER].fetch_add(1, VSeq); }
    fn on_exit(&self, _: &vspan::Id, _: VContext<'_, C>) { VSEEN[self.i][VK_EXIT].fetch_add(1, VSeq); }
    fn on_close(&self, _: vspan::Id, _: VContext<'_, C>) { VSEEN[self.i][VK_CLOSE].fetch_add(1, VSeq); }
    fn on_id_change(&self, _: &vspan::Id, _: &vspan::Id, _: VContext<'_, C>) { VSEEN[self.i][VK_IDCHANGE].fetch_add(1, VSeq); }
}
/// An arbitrary filter: symbolic static interest / hint / dynamic verdicts fixed at construction.
#[derive(Clone, Copy)]
pub(crate) struct VFil { pub(crate) enabled: bool, pub(crate) ev_enabled: bool, pub(crate) interest: u8, pub(crate) hint: u8 }
impl<C> VFilter<C> for VFil {
    fn enabled(&self, _: &VMetadata<'_>, _: &VContext<'_, C>) -> bool { self.enabled }
    fn callsite_enabled(&self, _: &'static VMetadata<'static>) -> VInterest { vinterest_of(self.interest) }
    fn max_level_hint(&self) -> Option<VLevelFilter> { vfilter_of(self.hint) }
    fn event_enabled(&self, _: &VEvent<'_>, _: &VContext<'_, C>) -> bool { self.ev_enabled }
}
impl VFil {
    pub(crate) fn any() -> VFil { let f = VFil { enabled: nd(), ev_enabled: nd(), interest: nd(), hint: nd() }; kani::assume(f.interest <= 2 && f.hint <= 6); f }
    pub(crate) fn accept(enabled: bool) -> VFil { VFil { enabled, ev_enabled: true, interest: 1, hint: 6 } }
}
