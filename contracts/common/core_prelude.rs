// ---- shared prelude for harness modules inside tracing-core (textually included) ----
#[allow(unused_imports)]
use crate::metadata::{Level, LevelFilter};
#[allow(unused_imports)]
use crate::collect::Interest;

/// Every symbolic value is drawn through `nd`, so a counterexample is a list of these draws.
pub(crate) fn nd<T: kani::Arbitrary>() -> T { kani::any() }

pub(crate) fn level_of(k: u8) -> Level {
    match k { 1 => Level::ERROR, 2 => Level::WARN, 3 => Level::INFO, 4 => Level::DEBUG, _ => Level::TRACE }
}
pub(crate) fn filter_of(k: u8) -> LevelFilter {
    match k { 0 => LevelFilter::OFF, 1 => LevelFilter::ERROR, 2 => LevelFilter::WARN, 3 => LevelFilter::INFO, 4 => LevelFilter::DEBUG, _ => LevelFilter::TRACE }
}
/// rank (spec): OFF=0 < ERROR=1 < WARN=2 < INFO=3 < DEBUG=4 < TRACE=5
pub(crate) fn any_level() -> (Level, u8) {
    let k: u8 = nd(); kani::assume(k >= 1 && k <= 5); (level_of(k), k)
}
pub(crate) fn any_filter() -> (LevelFilter, u8) {
    let k: u8 = nd(); kani::assume(k <= 5); (filter_of(k), k)
}
pub(crate) fn interest_of(k: u8) -> Interest {
    match k { 0 => Interest::never(), 1 => Interest::sometimes(), _ => Interest::always() }
}
pub(crate) fn interest_code(i: &Interest) -> u8 {
    if i.is_never() { 0 } else if i.is_sometimes() { 1 } else { 2 }
}
pub(crate) fn any_interest() -> (Interest, u8) {
    let k: u8 = nd(); kani::assume(k <= 2); (interest_of(k), k)
}
/// Stub for `core::fmt::Formatter::pad` (used with `-Z stubbing`): panic-message formatting on
/// infeasible error branches (refcount overflow, poisoned lock, bounds) otherwise sends CBMC into
/// core::fmt's char-counting loops. No harness that uses this stub inspects formatted text.
pub(crate) fn pad_stub<'a>(_f: &mut core::fmt::Formatter<'a>, _s: &str) -> core::fmt::Result where 'a: 'a { Ok(()) }
