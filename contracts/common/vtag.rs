// Every MUTABLE harness static is declared through vstatic!: it is wrapped in a struct whose first field points at a
// string unique to that static, so its initial bytes+relocations can equal no constant's.  Kani 0.68 keys constant
// allocations and static initialisers in one content-addressed map and would otherwise compile an equal-bytes constant
// (e.g. LevelFilter::TRACE, eight zero bytes) as a read of the static (see lib/vlib/aliascheck.py and DESIGN.md 0a).
#[allow(unused_macros)]
macro_rules! vstatic {
    ($vis:vis $name:ident : $t:ty = $e:expr) => {
        #[allow(non_camel_case_types, dead_code)] $vis struct $name { tag: &'static str, v: $t }
        impl core::ops::Deref for $name { type Target = $t; #[inline] fn deref(&self) -> &$t { &self.v } }
        $vis static $name: $name = $name { tag: concat!("verif-static:", module_path!(), "::", stringify!($name), "@", line!()), v: $e };
    };
}
