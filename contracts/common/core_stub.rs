// ---- stub collector + static callsites for harnesses inside tracing-core (textually included) ----
pub(crate) mod vstub {
    use crate::{callsite::Callsite, collect::{Collect, Interest}, metadata::{Kind, Level, Metadata}, span, Event, LevelFilter};
    use core::sync::atomic::{AtomicU8, AtomicUsize, Ordering};

    /// A callsite whose cached interest byte is observable: 0 never, 1 sometimes, 2 always, 0xFF unset.
    pub(crate) struct TestCallsite { pub(crate) seen: AtomicU8, pub(crate) sets: AtomicUsize, pub(crate) idx: usize }
    pub(crate) static CS0: TestCallsite = TestCallsite { seen: AtomicU8::new(0xFF), sets: AtomicUsize::new(0), idx: 0 };
    pub(crate) static CS1: TestCallsite = TestCallsite { seen: AtomicU8::new(0xFF), sets: AtomicUsize::new(0), idx: 1 };
    pub(crate) static META0: Metadata<'static> = crate::metadata! {
        name: "cs0", target: "t", level: Level::INFO, fields: &[], callsite: &CS0, kind: Kind::EVENT,
    };
    pub(crate) static META1: Metadata<'static> = crate::metadata! {
        name: "cs1", target: "t", level: Level::DEBUG, fields: &[], callsite: &CS1, kind: Kind::SPAN,
    };
    impl Callsite for TestCallsite {
        fn set_interest(&self, i: Interest) {
            let v = if i.is_never() { 0 } else if i.is_sometimes() { 1 } else { 2 };
            self.seen.store(v, Ordering::SeqCst);
            self.sets.fetch_add(1, Ordering::SeqCst);
        }
        fn metadata(&self) -> &Metadata<'_> { if self.idx == 0 { &META0 } else { &META1 } }
    }

    /// how often collector `i` was asked `register_callsite` for callsite `c`
    vstatic!(pub(crate) ASKED: [[AtomicUsize; 2]; 4] = [
        [AtomicUsize::new(0), AtomicUsize::new(0)], [AtomicUsize::new(0), AtomicUsize::new(0)],
        [AtomicUsize::new(0), AtomicUsize::new(0)], [AtomicUsize::new(0), AtomicUsize::new(0)],
    ]);
    vstatic!(pub(crate) HINTED: [AtomicUsize; 4] = [AtomicUsize::new(0), AtomicUsize::new(0), AtomicUsize::new(0), AtomicUsize::new(0)]);

    /// An arbitrary collector: its static answers per callsite and its hint are the given (symbolic) values.
    pub(crate) struct Stub { pub(crate) i: usize, pub(crate) answer: [u8; 2], pub(crate) hint: Option<LevelFilter> }
    impl Collect for Stub {
        fn register_callsite(&self, m: &'static Metadata<'static>) -> Interest {
            let c = if core::ptr::eq(m, &META0) { 0 } else { 1 };
            ASKED[self.i][c].fetch_add(1, Ordering::SeqCst);
            match self.answer[c] { 0 => Interest::never(), 1 => Interest::sometimes(), _ => Interest::always() }
        }
        fn max_level_hint(&self) -> Option<LevelFilter> { HINTED[self.i].fetch_add(1, Ordering::SeqCst); self.hint }
        fn enabled(&self, _: &Metadata<'_>) -> bool { true }
        fn new_span(&self, _: &span::Attributes<'_>) -> span::Id { span::Id::from_u64(1) }
        fn record(&self, _: &span::Id, _: &span::Record<'_>) {}
        fn record_follows_from(&self, _: &span::Id, _: &span::Id) {}
        fn event(&self, _: &Event<'_>) {}
        fn enter(&self, _: &span::Id) {}
        fn exit(&self, _: &span::Id) {}
        fn current_span(&self) -> span::Current { span::Current::unknown() }
    }
}
