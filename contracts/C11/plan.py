import importlib.util, os
_p = os.path.join(os.path.dirname(os.path.dirname(os.path.abspath(__file__))), "C07", "plan.py")
_s = importlib.util.spec_from_file_location("plan_C07_for_C11", _p); _m = importlib.util.module_from_spec(_s); _s.loader.exec_module(_m)
PLAN = dict(
    id="C11", api_files=['tracing-subscriber/src/filter/directive.rs', 'tracing-subscriber/src/filter/targets.rs'], level="other", explanation='Static directives only: for every set of 3 directives over the target catalogue {a, ab, abc, b, "", default} x 6 levels and every query over {a, ab, abc, abcd, b, c} x 5 levels, Targets::would_enable equals the statement\'s rule computed by an independent oracle (longest matching target prefix decides; a later directive with the same target replaces the earlier; no match = disabled); the DirectiveSet stays strictly sorted by the real Ord (hence key-unique), equal keys are replaced, max_level bounds every directive; Ord for StaticDirective is antisymmetric, transitive, Equal iff same target and fields, longer target first, more field constraints first. Bounded, stated.',
    functions_under_contract=['tracing-subscriber/src/filter/directive.rs: Ord/PartialOrd for StaticDirective, DirectiveSet::add, DirectiveSet::<StaticDirective>::{enabled,target_enabled,directives_for_target}, StaticDirective::cares_about_target', 'filter/targets.rs: Targets::{with_target,with_default,would_enable}'],
    trusted_base=["Kani 0.68 / CBMC 6.11 / CaDiCaL; Kani's std build (nightly-2026-08-21), not the repo toolchain's", 'core::fmt::Formatter::pad stubbed to Ok(()) with -Z stubbing (panic-message formatting on infeasible error branches; no harness that uses it reads formatted text)', 'cfg(kani) thread_local! shim and once_cell::sync::Lazy contract stub (see overlay_additions)', 'built with the default `smallvec` feature (FilterVec = SmallVec<[_; 8]>)'],
    assumptions=['the catalogue of targets/queries is a finite sample of prefix structures (equal, proper prefix, disjoint, empty, default)'],
    not_covered=['with_targets / Extend / FromIterator / default_level: a harness for the shape [ab, ab again] + default exceeded the 24 GB memory cap', 'Display / FromStr round trip of Targets and StaticDirective: a harness for the smallest shape (one targeted directive + default, symbolic levels) did not finish in 900 s of CBMC (core::fmt formatting followed by str splitting / parsing)', 'FromStr / Display round trips (regex grammar, string building)', 'EnvFilter agreement with Targets', 'span-scoped directives (by_cs / by_id / scope, matchers)', 'field-name directives against metadata fields'],
    kani=[dict(
        crate="tracing-subscriber", tls_shim_crates=["tracing-core", "tracing-subscriber"], once_cell_stub=True, jobs=3,
        no_default_features=True, features=["std", "fmt", "registry"],   # FilterVec = Vec (SmallVec<[_; 8]> exhausts CBMC memory)
        modules=[dict(name="__verif_c11", attach="inline", file="tracing-subscriber/src/filter/targets.rs", modpath="filter::targets",
                      files=["../common/sub_prelude.rs", "targets.kani.rs"])],
        append=_m.SUB_APPENDS,
    )],
    manifest=dict(technique='bounded comparison of the real Targets/DirectiveSet with an independent most-specific-match oracle (Kani)',
        text='Bounded stand-in for the static-directive core of the statement; the parsing, EnvFilter and span-scoped clauses are out of reach (regex, string reasoning) and listed as not covered.',
        note='Bounds stated. Not covered: parse/Display, EnvFilter, dynamic directives.',
        design_ref="DESIGN.md section 4, C11"),
)
