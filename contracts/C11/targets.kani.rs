// C11 (static directives) — appended to filter/targets.rs: real Targets / DirectiveSet<StaticDirective> / Ord for StaticDirective.
const CAT: [&str; 5] = ["a", "ab", "abc", "b", ""];      // directive targets; index 5 = no target (the default directive)
const ND: usize = 2;                                       // directives per set (3 exhausted 40+ GB in CBMC)
const QRY: [&str; 6] = ["a", "ab", "abc", "abcd", "b", "c"];
fn prefix_len(d: usize, q: &str) -> Option<isize> {
    // Some(specificity) if directive target d matches query q; the default directive matches everything, least specific
    if d == 5 { return Some(-1); }
    let t = CAT[d];
    if q.len() >= t.len() && &q.as_bytes()[..t.len()] == t.as_bytes() { Some(t.len() as isize) } else { None }
}
fn build(d: &[(usize, u8); ND]) -> Targets {
    let mut t = Targets::new();
    let mut i = 0;
    while i < ND {
        let lf = vfilter_of(d[i].1).unwrap();
        t = if d[i].0 == 5 { t.with_default(lf) } else { t.with_target(CAT[d[i].0], lf) };
        i += 1;
    }
    t
}
/// the statement's rule: the most specific matching directive (longest matching target prefix) decides; a later
/// directive with the same target replaces the earlier one; nothing matches => disabled
fn oracle(d: &[(usize, u8); ND], q: &str, lvl: u8) -> bool {
    let mut best: Option<(isize, u8)> = None;
    let mut i = 0;
    while i < ND {
        // skip if a later directive has the same target (it replaced this one)
        let mut replaced = false; let mut j = i + 1;
        while j < ND { if d[j].0 == d[i].0 { replaced = true; } j += 1; }
        if !replaced {
            if let Some(s) = prefix_len(d[i].0, q) {
                match best { Some((bs, _)) if bs >= s => {}, _ => best = Some((s, d[i].1)) }
            }
        }
        i += 1;
    }
    match best { Some((_, l)) => lvl <= l, None => false }
}
/// concrete TARGET shapes (prefix chain + default; same key twice; disjoint + empty-string target), symbolic LEVELS:
/// symbolic target choice made CBMC exceed 25 GB, concrete strings constant-fold.
fn shape(k: u8, l: [u8; 3]) -> [(usize, u8); 3] {
    match k {
        0 => [(0, l[0]), (1, l[1]), (5, l[2])],     // a, ab, default
        1 => [(1, l[0]), (5, l[1]), (1, l[2])],     // ab, default, ab again (replaces)
        2 => [(2, l[0]), (3, l[1]), (4, l[2])],     // abc, b, ""
        _ => [(5, l[0]), (0, l[1]), (5, l[2])],     // default, a, default again (replaces)
    }
}
fn build3(d: &[(usize, u8); 3]) -> Targets {
    let mut t = Targets::new();
    let mut i = 0;
    while i < 3 {
        let lf = vfilter_of(d[i].1).unwrap();
        t = if d[i].0 == 5 { t.with_default(lf) } else { t.with_target(CAT[d[i].0], lf) };
        i += 1;
    }
    t
}
fn oracle3(d: &[(usize, u8); 3], q: &str, lvl: u8) -> bool {
    let mut best: Option<(isize, u8)> = None;
    let mut i = 0;
    while i < 3 {
        let mut replaced = false; let mut j = i + 1;
        while j < 3 { if d[j].0 == d[i].0 { replaced = true; } j += 1; }
        if !replaced {
            if let Some(s) = prefix_len(d[i].0, q) {
                match best { Some((bs, _)) if bs >= s => {}, _ => best = Some((s, d[i].1)) }
            }
        }
        i += 1;
    }
    match best { Some((_, l)) => lvl <= l, None => false }
}
fn any_levels() -> [u8; 3] { let l: [u8; 3] = nd(); kani::assume(l[0] <= 5 && l[1] <= 5 && l[2] <= 5); l }

macro_rules! wins_body { ($k:expr) => {{
    let d = shape($k, any_levels());
    let t = build3(&d);
    let lvl: u8 = nd(); kani::assume(lvl >= 1 && lvl <= 5);
    let level = *vmeta_of(lvl).level();
    let qi: usize = nd(); kani::assume(qi < 6);
    let q = match qi { 0 => QRY[0], 1 => QRY[1], 2 => QRY[2], 3 => QRY[3], 4 => QRY[4], _ => QRY[5] };
    assert!(t.would_enable(q, &level) == oracle3(&d, q, lvl), "C11.would_enable.most_specific_matching_directive_decides_none_means_disabled");
    // the path ACTUAL filtering takes (Targets as a filter / layer: DirectiveSet::enabled over the metadata, via
    // StaticDirective::cares_about) must give the same verdict as would_enable (which goes through cares_about_target)
    let meta = tracing_core::Metadata::new("q", q, level, None, None, None, tracing_core::field::FieldSet::new(&[], tracing_core::identify_callsite!(&VCS)), VKind::EVENT);
    assert!(t.0.enabled(&meta) == oracle3(&d, q, lvl), "C11.enabled.actual_filtering_most_specific_matching_directive_decides");
    // the published hint bounds every directive present (also after a replace)
    let hint = vrank(Some(t.0.max_level));
    for dir in t.0.directives() { assert!(vrank(Some(dir.level)) <= hint, "C11.DirectiveSet.max_level_bounds_every_directive_present"); }
    let mut distinct = 0; let mut i = 0;
    while i < 3 { let mut seen = false; let mut j = 0; while j < i { if d[j].0 == d[i].0 { seen = true; } j += 1; } if !seen { distinct += 1; } i += 1; }
    assert!(t.0.directives().count() == distinct, "C11.DirectiveSet.equal_key_is_replaced_not_duplicated");
    core::mem::forget(t);   // the drop glue of the Strings / Vec is not under contract and dominates symbolic execution
}}; }
// BOUND: directive shape [a, ab, default] x all levels; queries {a, ab, abc, abcd, b, c} x 5 levels
#[kani::proof]
#[kani::unwind(8)]
#[kani::stub(core::fmt::Formatter::pad, pad_stub)]
fn c11_prefix_chain_with_default_bounded() { wins_body!(0) }
// BOUND: directive shape [ab, default, ab again] x all levels; same queries
#[kani::proof]
#[kani::unwind(8)]
#[kani::stub(core::fmt::Formatter::pad, pad_stub)]
fn c11_same_target_twice_replaces_bounded() { wins_body!(1) }
// TIER: thorough
// BOUND: directive shape [abc, b, ""] x all levels; same queries
#[kani::proof]
#[kani::unwind(8)]
#[kani::stub(core::fmt::Formatter::pad, pad_stub)]
fn c11_disjoint_and_empty_target_bounded() { wins_body!(2) }
// TIER: thorough
// BOUND: directive shape [default, a, default again] x all levels; same queries
#[kani::proof]
#[kani::unwind(8)]
#[kani::stub(core::fmt::Formatter::pad, pad_stub)]
fn c11_default_twice_replaces_bounded() { wins_body!(3) }

// BOUND: pairs/triples of directives from the catalogue (targets x {no field, one field})
#[kani::proof]
#[kani::unwind(8)]
#[kani::stub(core::fmt::Formatter::pad, pad_stub)]
fn c11_static_directive_order_is_total_and_specificity_first_bounded() {
    fn mk(t: usize, f: bool, l: u8) -> StaticDirective {
        StaticDirective::new(if t == 5 { None } else { Some(CAT[t].to_string()) }, if f { vec!["x".to_string()] } else { Vec::new() }, vfilter_of(l).unwrap())
    }
    let (ta, tb, tc): (usize, usize, usize) = (nd(), nd(), nd()); kani::assume(ta <= 5 && tb <= 5 && tc <= 5);
    let (fa, fb, fc): (bool, bool, bool) = (nd(), nd(), nd());
    let (a, b, c) = (mk(ta, fa, 3), mk(tb, fb, nd::<u8>() % 6), mk(tc, fc, 1));
    use core::cmp::Ordering::*;
    assert!(a.cmp(&b) == b.cmp(&a).reverse(), "C11.Ord.antisymmetric");
    assert!((a.cmp(&b) == Equal) == (ta == tb && fa == fb), "C11.Ord.equal_iff_same_target_and_fields_level_ignored");
    assert!(!(a.cmp(&b) == Less && b.cmp(&c) == Less) || a.cmp(&c) == Less, "C11.Ord.transitive");
    // more specific sorts first: longer target, then more field constraints
    let la = a.target.as_ref().map(|s| s.len()); let lb = b.target.as_ref().map(|s| s.len());
    assert!(!(la > lb) || a.cmp(&b) == Less, "C11.Ord.longer_target_first");
    assert!(!(la == lb && fa && !fb) || a.cmp(&b) == Less, "C11.Ord.more_field_constraints_first");
    core::mem::forget(a); core::mem::forget(b); core::mem::forget(c);
}
