import importlib.util, os
_c01 = os.path.join(os.path.dirname(os.path.dirname(os.path.abspath(__file__))), "C01", "plan.py")
_s = importlib.util.spec_from_file_location("plan_C01_for_C03", _c01); _m = importlib.util.module_from_spec(_s); _s.loader.exec_module(_m)
def build_history(ex):
    return open(os.path.join(os.path.dirname(os.path.abspath(__file__)), "lemma_c03.verus.rs")).read()


PLAN = dict(
    id="C03", api_files=['tracing/src/span.rs', 'tracing/src/instrument.rs'], level="proof", explanation="Every Span / guard / Instrumented operation gets a call-count contract on the span's OWN recording collector while a different (foreign) collector is installed as the current default: creation (new / new_root / child_of) = exactly one new_span on the current default; clone = one clone_span with the span's id; drop = one try_close per dropped handle; enter/guard drop, in_scope, entered/EnteredSpan::exit (no second exit, no close, no clone), EnteredSpan drop (exit before close); record (declared field one call, undeclared none), follows_from; disabled spans (none / new_disabled) make no call at all; Span::current clones from the default and binds to it; Instrumented polls and drops its inner future inside the span (enter < poll < exit, inner drop < exit < close). All loop-free over symbolic ids / readiness, so each contract holds for every program point; balance for whole programs follows by counting over these contracts with Rust's affine ownership of handles. Added after seed C03-3: Instrumented::into_inner, the *_with constructors (must use the collector they are given, never the current default) and or_current.",
    functions_under_contract=['tracing/src/instrument.rs: Instrumented::into_inner (drops its span handle exactly once); tracing/src/span.rs: Span::{new_with,new_root_with,child_of_with} use the given collector, Span::or_current', 'tracing/src/span.rs: Span::{new,new_root,child_of,new_with,make_with,new_disabled,none,current,enter,entered,in_scope,record,record_all,follows_from,do_enter,do_exit}, Clone for Inner, Drop for Span, Drop for Entered / EnteredSpan, EnteredSpan::exit', 'tracing/src/instrument.rs: Instrumented::poll, PinnedDrop for Instrumented'],
    trusted_base=["Kani 0.68 / CBMC 6.11 / CaDiCaL; Kani's std build (nightly-2026-08-21), not the repo toolchain's", 'core::fmt::Formatter::pad stubbed to Ok(()) with -Z stubbing (panic-message formatting on infeasible error branches; no harness that uses it reads formatted text)', 'cfg(kani) thread_local! shim and once_cell::sync::Lazy contract stub (see overlay_additions)'],
    assumptions=["each handle is dropped at most once and mem::forget is excluded (Rust's affine typing)", "'same thread' for enter/exit: Kani has one thread", 'the lift from per-operation contracts to whole histories is mechanised in Verus (lemma_c03.verus.rs: balanced_protocol, nothing_after_last_close) over an operation alphabet {clone, drop, enter, exit} whose per-operation effects are the Kani obligations', 'balance over whole programs is the counting argument over the per-operation contracts (not mechanised)'],
    not_covered=['tracing-futures wrappers (WithDispatch etc.)', "spans disabled by the macros' filtering stages (C01)", 'sending handles across threads', 'unwinding paths: that enter is matched by exit when a closure or future panics rests on the presence of drop guards (Entered), which Kani cannot observe - panic is abort (seed C03-6, in_scope without a guard, is missed)'],
    verus=[dict(name="history", builder="build_history", obligations=["balanced_protocol", "nothing_after_last_close", "all_handles_gone_means_all_closed"])],
    kani=[dict(
        crate="tracing", tls_shim_crates=["tracing-core"], once_cell_stub=True,
        modules=[dict(name="__verif_c03", attach="lib", files=["span_protocol.kani.rs"])],
        append=[dict(file="tracing-core/src/dispatch.rs", text=_m.DISPATCH_HELPER, kind="cfg(kani) constructor helper")],
    )],
    manifest=dict(technique='per-operation call-count contracts on the real Span/guard/Instrumented code with a recording own collector and a foreign default (Kani, loop-free, symbolic ids)',
        text="Each handle operation is proved on the real code to make exactly the stated calls on the span's own collector and none on the current default, for every span id and every readiness of the instrumented future; disabled spans are silent. Balance of whole programs is the sum of these contracts.",
        note='Trusted: Kani/CBMC, shims. Assumed: affine ownership of handles, single thread. tracing-futures not covered.',
        design_ref="DESIGN.md section 4, C03"),
)
