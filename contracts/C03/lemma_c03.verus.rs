use vstd::prelude::*;
verus! {
// ---- C03 lemma layer (pure Verus): from per-operation contracts to the whole-history statement.
// One enabled span, seen from its creating collector.  Each operation's effect on the collector's counters is what the
// Kani harnesses of span_protocol.kani.rs discharge on the real Span / Entered / EnteredSpan / Instrumented code:
//   Create            : exactly one new_span                                   (handle count becomes 1)
//   Clone             : exactly one clone_span, nothing else                   (needs a live handle)
//   DropHandle        : exactly one try_close, nothing else                    (needs a live handle)
//   Enter             : exactly one enter                                      (needs a live handle)
//   Exit (guard drop) : exactly one exit                                       (needs an outstanding enter; a guard keeps a handle alive)
// A history is any finite sequence of operations whose preconditions hold.  The lemmas say what the collector has seen
// after ANY such history.
pub enum Op { Clone, DropHandle, Enter, Exit }
pub struct Seen { pub handles: int, pub depth: int, pub new_span: int, pub clone_span: int, pub try_close: int, pub enter: int, pub exit: int }

pub open spec fn created() -> Seen { Seen { handles: 1, depth: 0, new_span: 1, clone_span: 0, try_close: 0, enter: 0, exit: 0 } }
pub open spec fn allowed(s: Seen, op: Op) -> bool {
    match op { Op::Clone => s.handles >= 1, Op::DropHandle => s.handles >= 1, Op::Enter => s.handles >= 1, Op::Exit => s.depth >= 1 && s.handles >= 1 }
}
pub open spec fn step(s: Seen, op: Op) -> Seen {
    match op {
        Op::Clone => Seen { handles: s.handles + 1, clone_span: s.clone_span + 1, ..s },
        Op::DropHandle => Seen { handles: s.handles - 1, try_close: s.try_close + 1, ..s },
        Op::Enter => Seen { depth: s.depth + 1, enter: s.enter + 1, ..s },
        Op::Exit => Seen { depth: s.depth - 1, exit: s.exit + 1, ..s },
    }
}
pub open spec fn valid(h: Seq<Op>) -> bool decreases h.len() {
    h.len() == 0 || (valid(h.drop_last()) && allowed(run(h.drop_last()), h.last()))
}
pub open spec fn run(h: Seq<Op>) -> Seen decreases h.len() {
    if h.len() == 0 { created() } else { step(run(h.drop_last()), h.last()) }
}
pub open spec fn count(h: Seq<Op>, op: Op) -> int decreases h.len() {
    if h.len() == 0 { 0 } else { count(h.drop_last(), op) + if h.last() == op { 1int } else { 0int } }
}
// what the creating collector has seen after any valid history
pub proof fn balanced_protocol(h: Seq<Op>)
    requires valid(h)
    ensures ({ let s = run(h);
        &&& s.new_span == 1                                           // exactly one creation
        &&& s.clone_span == count(h, Op::Clone)                       // one clone notification per additional handle
        &&& s.try_close == count(h, Op::DropHandle)                   // one close notification per dropped handle
        &&& s.handles == 1 + s.clone_span - s.try_close && s.handles >= 0
        &&& s.enter == count(h, Op::Enter) && s.exit == count(h, Op::Exit)
        &&& s.enter - s.exit == s.depth && s.depth >= 0               // every exit matches an earlier enter
    })
    decreases h.len()
{
    if h.len() > 0 { balanced_protocol(h.drop_last()); }
}
// nothing arrives after the last handle's close notification: once no handle is left no operation is possible
pub proof fn nothing_after_last_close(h: Seq<Op>, op: Op)
    requires valid(h), run(h).handles == 0
    ensures !allowed(run(h), op)
{
}
// when all handles are gone every enter has been matched by an exit IF no guard outlives the handles - which the borrow
// checker guarantees for Entered (borrows the span) and EnteredSpan (owns it): depth > 0 implies a live handle
pub proof fn all_handles_gone_means_all_closed(h: Seq<Op>)
    requires valid(h), run(h).handles == 0
    ensures run(h).try_close == 1 + run(h).clone_span
{
    balanced_protocol(h);
}
} // verus!
fn main() {}
