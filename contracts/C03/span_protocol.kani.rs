// C03 — Span handles drive their own collector through a balanced protocol (real tracing::Span / guards / Instrumented).
use crate::{collect::Interest, dispatch::{self, Dispatch}, field, span, Collect, Event, Level, Metadata, Span};
use core::sync::atomic::{AtomicUsize, AtomicU64, Ordering as AO};

fn nd<T: kani::Arbitrary>() -> T { kani::any() }
fn pad_stub<'a>(_f: &mut core::fmt::Formatter<'a>, _s: &str) -> core::fmt::Result where 'a: 'a { Ok(()) }

// per collector (0 = the span's own collector, 1 = a foreign collector installed as the current default)
const NEW: usize = 0; const CLONE: usize = 1; const CLOSE: usize = 2; const ENTER: usize = 3; const EXIT: usize = 4;
const RECORD: usize = 5; const FOLLOWS: usize = 6; const EVENT: usize = 7; const CURRENT: usize = 8; const NK: usize = 9;
macro_rules! z { () => { AtomicUsize::new(0) }; }
vstatic!(N: [[AtomicUsize; NK]; 2] = [[z!(), z!(), z!(), z!(), z!(), z!(), z!(), z!(), z!()], [z!(), z!(), z!(), z!(), z!(), z!(), z!(), z!(), z!()]]);
vstatic!(LAST_ID: [AtomicU64; 2] = [AtomicU64::new(0), AtomicU64::new(0)]);
vstatic!(STAMP: [[AtomicUsize; NK]; 2] = [[z!(), z!(), z!(), z!(), z!(), z!(), z!(), z!(), z!()], [z!(), z!(), z!(), z!(), z!(), z!(), z!(), z!(), z!()]]);
vstatic!(SEQ: AtomicUsize = AtomicUsize::new(0));
vstatic!(POLL_STAMP: AtomicUsize = AtomicUsize::new(0));
vstatic!(INNER_DROP_STAMP: AtomicUsize = AtomicUsize::new(0));
fn tick() -> usize { SEQ.fetch_add(1, AO::SeqCst) + 1 }
fn hit(i: usize, k: usize, id: u64) { N[i][k].fetch_add(1, AO::SeqCst); LAST_ID[i].store(id, AO::SeqCst); STAMP[i][k].store(tick(), AO::SeqCst); }
fn n(i: usize, k: usize) -> usize { N[i][k].load(AO::SeqCst) }
fn total(i: usize) -> usize { let mut s = 0; let mut k = 0; while k < NK { s += n(i, k); k += 1; } s }

struct Rec { i: usize, new_id: u64, cur: u64, close_result: bool }
impl Collect for Rec {
    fn register_callsite(&self, _: &'static Metadata<'static>) -> Interest { Interest::always() }
    fn enabled(&self, _: &Metadata<'_>) -> bool { true }
    fn new_span(&self, _: &span::Attributes<'_>) -> span::Id { hit(self.i, NEW, self.new_id); span::Id::from_u64(self.new_id) }
    fn record(&self, s: &span::Id, _: &span::Record<'_>) { hit(self.i, RECORD, s.into_u64()) }
    fn record_follows_from(&self, s: &span::Id, _: &span::Id) { hit(self.i, FOLLOWS, s.into_u64()) }
    fn event(&self, _: &Event<'_>) { hit(self.i, EVENT, 0) }
    fn enter(&self, s: &span::Id) { hit(self.i, ENTER, s.into_u64()) }
    fn exit(&self, s: &span::Id) { hit(self.i, EXIT, s.into_u64()) }
    fn clone_span(&self, s: &span::Id) -> span::Id { hit(self.i, CLONE, s.into_u64()); s.clone() }
    fn try_close(&self, s: span::Id) -> bool { hit(self.i, CLOSE, s.into_u64()); self.close_result }
    fn current_span(&self) -> tracing_core::span::Current {
        hit(self.i, CURRENT, 0);
        if self.cur == 0 { tracing_core::span::Current::none() } else { tracing_core::span::Current::new(span::Id::from_u64(self.cur), __CALLSITE.metadata()) }
    }
}
use crate::__macro_support::Callsite as _;
static __CALLSITE: crate::__macro_support::MacroCallsite = crate::callsite2! { name: "s", kind: crate::metadata::Kind::SPAN, target: "t", level: Level::INFO, fields: a };

fn own(id: u64) -> Dispatch { Dispatch::__verif_unregistered(Rec { i: 0, new_id: id, cur: 0, close_result: nd() }) }
fn foreign() -> Dispatch { Dispatch::__verif_unregistered(Rec { i: 1, new_id: 99, cur: 0, close_result: nd() }) }
fn any_id() -> u64 { let k: u64 = nd(); kani::assume(k != 0 && k != 99); k }
fn mk(d: &Dispatch) -> Span { let m = __CALLSITE.metadata(); Span::new_with(m, &m.fields().value_set(&[]), d) }

#[kani::proof]
#[kani::unwind(12)]
#[kani::stub(core::fmt::Formatter::pad, pad_stub)]
fn c03_creation_goes_to_current_default_once() {
    let id = any_id(); let d = own(id);
    let m = __CALLSITE.metadata();
    let which: u8 = nd(); kani::assume(which < 6);
    let f = foreign();
    // the *_with constructors take the collector explicitly: they must use IT, whatever the current default is
    let s = dispatch::with_default(if which < 3 { &d } else { &f }, || match which {
        0 => Span::new(m, &m.fields().value_set(&[])),
        1 => Span::new_root(m, &m.fields().value_set(&[])),
        2 => Span::child_of(Some(span::Id::from_u64(5)), m, &m.fields().value_set(&[])),
        3 => Span::new_with(m, &m.fields().value_set(&[]), &d),
        4 => Span::new_root_with(m, &m.fields().value_set(&[]), &d),
        _ => Span::child_of_with(Some(span::Id::from_u64(5)), m, &m.fields().value_set(&[]), &d),
    });
    assert!(total(1) == 0, "C03.create.with_constructors_never_touch_the_current_default");
    assert!(n(0, NEW) == 1 && total(0) == 1, "C03.create.exactly_one_new_span_on_the_current_default");
    assert!(s.id().map(|i| i.into_u64()) == Some(id) && !s.is_disabled(), "C03.create.handle_carries_the_collectors_id");
    core::mem::forget(s);
}

#[kani::proof]
#[kani::unwind(12)]
#[kani::stub(core::fmt::Formatter::pad, pad_stub)]
fn c03_clone_and_drop_notify_own_collector_under_foreign_default() {
    let id = any_id(); let d = own(id); let f = foreign();
    let s = mk(&d);
    assert!(n(0, NEW) == 1, "C03.setup");
    dispatch::with_default(&f, || {
        let c = s.clone();
        assert!(n(0, CLONE) == 1 && LAST_ID[0].load(AO::SeqCst) == id, "C03.clone.exactly_one_clone_span_with_own_id");
        assert!(c.id() == s.id(), "C03.clone.same_span");
        drop(c);
        assert!(n(0, CLOSE) == 1 && LAST_ID[0].load(AO::SeqCst) == id, "C03.drop.exactly_one_try_close_per_dropped_handle");
        drop(s);
        assert!(n(0, CLOSE) == 2, "C03.drop.last_handle_closes_too");
        assert!(total(0) == 4, "C03.nothing_else_reaches_the_collector");
    });
    assert!(total(1) == 0, "C03.foreign_default_never_touched");
}

#[kani::proof]
#[kani::unwind(12)]
#[kani::stub(core::fmt::Formatter::pad, pad_stub)]
fn c03_enter_exit_guards_balance() {
    let id = any_id(); let d = own(id); let f = foreign();
    let s = mk(&d);
    dispatch::with_default(&f, || {
        {
            let _g = s.enter();
            assert!(n(0, ENTER) == 1 && n(0, EXIT) == 0, "C03.enter.one_enter");
        }
        assert!(n(0, EXIT) == 1, "C03.enter.guard_drop_is_one_exit");
        let v: u8 = nd();
        let r = s.in_scope(|| { assert!(n(0, ENTER) == 2 && n(0, EXIT) == 1, "C03.in_scope.body_runs_inside"); v });
        assert!(r == v && n(0, ENTER) == 2 && n(0, EXIT) == 2, "C03.in_scope.enter_f_exit_once_each_value_returned");
        let e = s.entered();
        assert!(n(0, ENTER) == 3, "C03.entered.one_enter");
        let s2 = e.exit();
        assert!(n(0, EXIT) == 3 && n(0, CLOSE) == 0 && n(0, CLONE) == 0, "C03.EnteredSpan.exit.one_exit_no_close_no_clone");
        let e2 = s2.entered();
        drop(e2);
        assert!(n(0, ENTER) == 4 && n(0, EXIT) == 4 && n(0, CLOSE) == 1, "C03.EnteredSpan.drop.exit_then_close_once");
        assert!(STAMP[0][EXIT].load(AO::SeqCst) < STAMP[0][CLOSE].load(AO::SeqCst), "C03.EnteredSpan.drop.exit_before_close");
    });
    assert!(total(1) == 0, "C03.foreign_default_never_touched");
}

#[kani::proof]
#[kani::unwind(12)]
#[kani::stub(core::fmt::Formatter::pad, pad_stub)]
fn c03_disabled_span_makes_no_calls() {
    let f = foreign();
    dispatch::with_default(&f, || {
        let none: bool = nd();
        let s = if none { Span::none() } else { Span::new_disabled(__CALLSITE.metadata()) };
        let c = s.clone();
        { let _g = c.enter(); }
        c.in_scope(|| ());
        c.record("a", 5u64);
        c.follows_from(span::Id::from_u64(3));
        let e = c.entered(); let c2 = e.exit();
        drop(c2); drop(s);
    });
    assert!(total(0) == 0 && total(1) == 0, "C03.disabled_span.no_collector_call_at_all");
}

#[kani::proof]
#[kani::unwind(12)]
#[kani::stub(core::fmt::Formatter::pad, pad_stub)]
fn c03_record_and_follows_from() {
    let id = any_id(); let d = own(id); let f = foreign();
    let s = mk(&d);
    dispatch::with_default(&f, || {
        s.record("a", 5u64);
        assert!(n(0, RECORD) == 1 && LAST_ID[0].load(AO::SeqCst) == id, "C03.record.declared_field_one_record_call");
        s.record("nope", 5u64);
        assert!(n(0, RECORD) == 1, "C03.record.undeclared_field_ignored");
        s.follows_from(span::Id::from_u64(3));
        assert!(n(0, FOLLOWS) == 1, "C03.follows_from.one_call");
        s.follows_from(None);
        assert!(n(0, FOLLOWS) == 1, "C03.follows_from.none_is_no_call");
    });
    assert!(total(1) == 0, "C03.foreign_default_never_touched");
    core::mem::forget(s);
}

#[kani::proof]
#[kani::unwind(12)]
#[kani::stub(core::fmt::Formatter::pad, pad_stub)]
fn c03_current_clones_from_the_default() {
    let cur: u64 = nd(); kani::assume(cur != 99);
    let d = Dispatch::__verif_unregistered(Rec { i: 1, new_id: 99, cur, close_result: false });
    let s = dispatch::with_default(&d, Span::current);
    if cur == 0 {
        assert!(s.is_none() && n(1, CLONE) == 0, "C03.current.no_current_span_no_handle_no_clone");
    } else {
        assert!(n(1, CLONE) == 1 && s.id().map(|i| i.into_u64()) == Some(cur), "C03.current.one_clone_span_on_the_default_handle_bound_to_it");
        drop(s);
        assert!(n(1, CLOSE) == 1, "C03.current.handle_closes_on_the_same_collector");
    }
}

// ---- Instrumented: each poll and the inner future's drop run inside the span, on the span's own collector
struct Fut { ready_after: u8 }
impl core::future::Future for Fut {
    type Output = u8;
    fn poll(mut self: core::pin::Pin<&mut Self>, _: &mut core::task::Context<'_>) -> core::task::Poll<u8> {
        POLL_STAMP.store(tick(), AO::SeqCst);
        if self.ready_after == 0 { core::task::Poll::Ready(42) } else { self.ready_after -= 1; core::task::Poll::Pending }
    }
}
impl Drop for Fut { fn drop(&mut self) { INNER_DROP_STAMP.store(tick(), AO::SeqCst); } }
#[kani::proof]
#[kani::unwind(12)]
#[kani::stub(core::fmt::Formatter::pad, pad_stub)]
fn c03_instrumented_polls_and_drops_inside_the_span() {
    use crate::instrument::Instrument;
    use core::future::Future;
    let id = any_id(); let d = own(id); let f = foreign();
    let s = mk(&d);
    let ready_first: bool = nd();
    dispatch::with_default(&f, || {
        let mut fut = Box::pin(Fut { ready_after: if ready_first { 0 } else { 1 } }.instrument(s));
        let w = core::task::Waker::noop();
        let mut cx = core::task::Context::from_waker(&w);
        let r = fut.as_mut().poll(&mut cx);
        assert!(n(0, ENTER) == 1 && n(0, EXIT) == 1, "C03.Instrumented.poll.one_enter_one_exit");
        assert!(STAMP[0][ENTER].load(AO::SeqCst) < POLL_STAMP.load(AO::SeqCst) && POLL_STAMP.load(AO::SeqCst) < STAMP[0][EXIT].load(AO::SeqCst), "C03.Instrumented.poll.inner_polled_inside_the_span");
        assert!(r.is_ready() == ready_first, "C03.Instrumented.poll.result_passed_through");
        if let core::task::Poll::Ready(v) = r { assert!(v == 42, "C03.Instrumented.poll.value_passed_through"); }
        drop(fut);
        assert!(n(0, ENTER) == 2 && n(0, EXIT) == 2, "C03.Instrumented.drop.inner_dropped_inside_the_span");
        assert!(INNER_DROP_STAMP.load(AO::SeqCst) < STAMP[0][EXIT].load(AO::SeqCst), "C03.Instrumented.drop.inner_drop_before_exit");
        assert!(n(0, CLOSE) == 1 && STAMP[0][EXIT].load(AO::SeqCst) < STAMP[0][CLOSE].load(AO::SeqCst), "C03.Instrumented.drop.span_closed_once_after_last_exit");
    });
    assert!(total(1) == 0, "C03.foreign_default_never_touched");
}

// Instrumented::into_inner hands back the wrapped value and drops the span handle it owned: exactly one close
// notification on the span's own collector, no enter/exit, the inner value neither dropped nor polled
#[kani::proof]
#[kani::unwind(12)]
#[kani::stub(core::fmt::Formatter::pad, pad_stub)]
fn c03_instrumented_into_inner_drops_its_span_handle_exactly_once() {
    use crate::instrument::Instrument;
    let id = any_id(); let d = own(id); let f = foreign();
    let s = mk(&d);
    let keep_clone: bool = nd();
    dispatch::with_default(&f, || {
        let extra = if keep_clone { Some(s.clone()) } else { None };
        let inst = Fut { ready_after: 1 }.instrument(s);
        let inner = inst.into_inner();
        assert!(n(0, CLOSE) == 1, "C03.Instrumented.into_inner.the_handle_it_owned_is_closed_exactly_once");
        assert!(n(0, ENTER) == 0 && n(0, EXIT) == 0, "C03.Instrumented.into_inner.no_enter_no_exit");
        assert!(INNER_DROP_STAMP.load(AO::SeqCst) == 0 && inner.ready_after == 1, "C03.Instrumented.into_inner.inner_value_returned_untouched");
        assert!(n(0, CLONE) == keep_clone as usize, "C03.Instrumented.into_inner.no_extra_clone");
        drop(extra);
        assert!(n(0, CLOSE) == 1 + keep_clone as usize, "C03.Instrumented.into_inner.other_handles_close_on_their_own_drop");
        core::mem::forget(inner);
    });
    assert!(total(1) == 0, "C03.foreign_default_never_touched");
}

// or_current: an enabled span is returned as it is (no collector call); a disabled one is replaced by the current span,
// i.e. exactly one clone on the CURRENT default's collector
#[kani::proof]
#[kani::unwind(12)]
#[kani::stub(core::fmt::Formatter::pad, pad_stub)]
fn c03_or_current_clones_only_when_disabled() {
    let id = any_id(); let d = own(id);
    let cur: u64 = nd();
    let f = Dispatch::__verif_unregistered(Rec { i: 1, new_id: 99, cur, close_result: nd() });
    let enabled: bool = nd();
    let s = if enabled { mk(&d) } else { Span::none() };
    let before0 = total(0);
    let r = dispatch::with_default(&f, || s.or_current());
    if enabled {
        assert!(total(0) == before0 && total(1) == 0, "C03.or_current.enabled_span_is_returned_without_any_collector_call");
        assert!(r.id().map(|i| i.into_u64()) == Some(id), "C03.or_current.enabled_span_keeps_its_identity");
    } else {
        assert!(total(0) == before0, "C03.or_current.disabled.own_collector_untouched");
        assert!(n(1, CURRENT) == 1 && n(1, CLONE) == (cur != 0) as usize, "C03.or_current.disabled.one_lookup_and_one_clone_of_the_current_span_if_any");
        assert!(r.id().map(|i| i.into_u64()) == if cur != 0 { Some(cur) } else { None }, "C03.or_current.disabled.result_is_the_current_span");
    }
    core::mem::forget(r);
}
