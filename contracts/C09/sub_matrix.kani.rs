// C09 (tracing-subscriber part) — pass-through wrappers of Subscribe / Filter / Layered stacks.
// Appended inside `tracing_subscriber::subscribe`, so the private `Context::new` is the real one.
// One obligation per (wrapper, trait method); the lists are generated from the trait definitions on every run.
use core::sync::atomic::{AtomicUsize, Ordering as AO};
use crate::{filter, reload};
use tracing_core::{Kind, Level};

fn nd<T: kani::Arbitrary>() -> T { kani::any() }
fn pad_stub<'a>(_f: &mut core::fmt::Formatter<'a>, _s: &str) -> core::fmt::Result where 'a: 'a { Ok(()) }
fn addr<T: ?Sized>(t: &T) -> usize { t as *const T as *const () as usize }
fn filter_of(k: u8) -> Option<LevelFilter> {
    match k { 0 => Some(LevelFilter::OFF), 1 => Some(LevelFilter::ERROR), 2 => Some(LevelFilter::WARN), 3 => Some(LevelFilter::INFO), 4 => Some(LevelFilter::DEBUG), 5 => Some(LevelFilter::TRACE), _ => None }
}
fn interest_of(k: u8) -> Interest { match k { 0 => Interest::never(), 1 => Interest::sometimes(), _ => Interest::always() } }
fn icode(i: &Interest) -> u8 { if i.is_never() { 0 } else if i.is_sometimes() { 1 } else { 2 } }

struct Cs;
static CS: Cs = Cs;
static META: Metadata<'static> = tracing_core::metadata! { name: "m", target: "t", level: Level::INFO, fields: &[], callsite: &CS, kind: Kind::EVENT, };
impl tracing_core::callsite::Callsite for Cs { fn set_interest(&self, _: Interest) {} fn metadata(&self) -> &Metadata<'_> { &META } }

// ---- log: per instance (0 = outer / the wrapped one, 1 = inner, 2 = root collector) x method: count + sequence stamp + args
const NI: usize = 3; const NMETH: usize = 20;
macro_rules! z { () => { AtomicUsize::new(0) }; }
macro_rules! zrow { () => { [z!(), z!(), z!(), z!(), z!(), z!(), z!(), z!(), z!(), z!(), z!(), z!(), z!(), z!(), z!(), z!(), z!(), z!(), z!(), z!()] }; }
vstatic!(CNT: [[AtomicUsize; NMETH]; NI] = [zrow!(), zrow!(), zrow!()]);
vstatic!(STAMP: [[AtomicUsize; NMETH]; NI] = [zrow!(), zrow!(), zrow!()]);
vstatic!(ARG_A: [AtomicUsize; NI] = [z!(), z!(), z!()]);
vstatic!(ARG_B: [AtomicUsize; NI] = [z!(), z!(), z!()]);
vstatic!(SEQ: AtomicUsize = AtomicUsize::new(0));
fn hit(i: usize, m: usize, a: usize, b: usize) {
    CNT[i][m].fetch_add(1, AO::SeqCst);
    STAMP[i][m].store(SEQ.fetch_add(1, AO::SeqCst) + 1, AO::SeqCst);
    ARG_A[i].store(a, AO::SeqCst); ARG_B[i].store(b, AO::SeqCst);
}
fn reset() { let mut i = 0; while i < NI { let mut m = 0; while m < NMETH { CNT[i][m].store(0, AO::SeqCst); STAMP[i][m].store(0, AO::SeqCst); m += 1; } i += 1; } }
/// instance `i` received exactly one call, of method `m` (pass NMETH for "no call at all")
fn only(i: usize, m: usize) -> bool {
    let mut k = 0; let mut ok = true;
    // downcast_raw (row 14) is type introspection (Layered::try_close, is_none / PSF markers), not a notification:
    // it is only counted when it is the method under test
    while k < NMETH { let c = CNT[i][k].load(AO::SeqCst); if (k == m && c != 1) || (k != m && k != 14 && c != 0) { ok = false; } k += 1; }
    ok
}
fn silent(i: usize) -> bool { only(i, NMETH) }
fn before(i: usize, mi: usize, j: usize, mj: usize) -> bool { let a = STAMP[i][mi].load(AO::SeqCst); let b = STAMP[j][mj].load(AO::SeqCst); a != 0 && b != 0 && a < b }

// Subscribe methods
const S_ON_REGISTER_DISPATCH: usize = 0; const S_ON_SUBSCRIBE: usize = 1; const S_REGISTER_CALLSITE: usize = 2; const S_ENABLED: usize = 3;
const S_ON_NEW_SPAN: usize = 4; const S_MAX_LEVEL_HINT: usize = 5; const S_ON_RECORD: usize = 6; const S_ON_FOLLOWS_FROM: usize = 7;
const S_EVENT_ENABLED: usize = 8; const S_ON_EVENT: usize = 9; const S_ON_ENTER: usize = 10; const S_ON_EXIT: usize = 11; const S_ON_CLOSE: usize = 12;
const S_ON_ID_CHANGE: usize = 13; const S_DOWNCAST_RAW: usize = 14;
// Collect methods of the root (instance 2)
const C_ON_REGISTER_DISPATCH: usize = 0; const C_REGISTER_CALLSITE: usize = 2; const C_ENABLED: usize = 3; const C_NEW_SPAN: usize = 4; const C_MAX_LEVEL_HINT: usize = 5;
const C_RECORD: usize = 6; const C_FOLLOWS: usize = 7; const C_EVENT_ENABLED: usize = 8; const C_EVENT: usize = 9; const C_ENTER: usize = 10; const C_EXIT: usize = 11;
const C_TRY_CLOSE: usize = 12; const C_CLONE_SPAN: usize = 13; const C_DOWNCAST_RAW: usize = 14; const C_CURRENT_SPAN: usize = 15; const C_DROP_SPAN: usize = 16;

#[derive(Clone, Copy)]
struct Cfg { interest: u8, enabled: bool, hint: u8, ev_enabled: bool, new_id: u64, clone_same: bool, close: bool }
impl Cfg {
    fn any() -> Cfg { let c = Cfg { interest: nd(), enabled: nd(), hint: nd(), ev_enabled: nd(), new_id: nd(), clone_same: nd(), close: nd() };
        kani::assume(c.interest <= 2 && c.hint <= 6 && c.new_id != 0 && c.new_id != 7); c }
}

/// Recording layer (and recording filter): logs every call, returns the symbolic values of its Cfg.
struct RecS { i: usize, c: Cfg }
impl<C: Collect> Subscribe<C> for RecS {
    fn on_register_dispatch(&self, d: &Dispatch) { hit(self.i, S_ON_REGISTER_DISPATCH, addr(d), 0) }
    fn on_subscribe(&mut self, c: &mut C) { hit(self.i, S_ON_SUBSCRIBE, addr(c), 0) }
    fn register_callsite(&self, m: &'static Metadata<'static>) -> Interest { hit(self.i, S_REGISTER_CALLSITE, addr(m), 0); interest_of(self.c.interest) }
    fn enabled(&self, m: &Metadata<'_>, _: Context<'_, C>) -> bool { hit(self.i, S_ENABLED, addr(m), 0); self.c.enabled }
    fn on_new_span(&self, a: &span::Attributes<'_>, id: &span::Id, _: Context<'_, C>) { hit(self.i, S_ON_NEW_SPAN, addr(a), id.into_u64() as usize) }
    fn max_level_hint(&self) -> Option<LevelFilter> { hit(self.i, S_MAX_LEVEL_HINT, 0, 0); filter_of(self.c.hint) }
    fn on_record(&self, s: &span::Id, v: &span::Record<'_>, _: Context<'_, C>) { hit(self.i, S_ON_RECORD, addr(s), addr(v)) }
    fn on_follows_from(&self, s: &span::Id, f: &span::Id, _: Context<'_, C>) { hit(self.i, S_ON_FOLLOWS_FROM, addr(s), addr(f)) }
    fn event_enabled(&self, e: &Event<'_>, _: Context<'_, C>) -> bool { hit(self.i, S_EVENT_ENABLED, addr(e), 0); self.c.ev_enabled }
    fn on_event(&self, e: &Event<'_>, _: Context<'_, C>) { hit(self.i, S_ON_EVENT, addr(e), 0) }
    fn on_enter(&self, s: &span::Id, _: Context<'_, C>) { hit(self.i, S_ON_ENTER, addr(s), 0) }
    fn on_exit(&self, s: &span::Id, _: Context<'_, C>) { hit(self.i, S_ON_EXIT, addr(s), 0) }
    fn on_close(&self, s: span::Id, _: Context<'_, C>) { hit(self.i, S_ON_CLOSE, s.into_u64() as usize, 0) }
    fn on_id_change(&self, o: &span::Id, n: &span::Id, _: Context<'_, C>) { hit(self.i, S_ON_ID_CHANGE, o.into_u64() as usize, n.into_u64() as usize) }
    unsafe fn downcast_raw(&self, id: TypeId) -> Option<NonNull<()>> {
        hit(self.i, S_DOWNCAST_RAW, 0, 0);
        if id == TypeId::of::<Self>() { Some(NonNull::from(self).cast()) } else { None }
    }
}
// Filter methods (same log rows, instance = self.i)
const F_ENABLED: usize = 3; const F_CALLSITE_ENABLED: usize = 2; const F_MAX_LEVEL_HINT: usize = 5; const F_EVENT_ENABLED: usize = 8;
const F_ON_NEW_SPAN: usize = 4; const F_ON_RECORD: usize = 6; const F_ON_ENTER: usize = 10; const F_ON_EXIT: usize = 11; const F_ON_CLOSE: usize = 12;
struct RecF { i: usize, c: Cfg }
impl<C> Filter<C> for RecF {
    fn enabled(&self, m: &Metadata<'_>, _: &Context<'_, C>) -> bool { hit(self.i, F_ENABLED, addr(m), 0); self.c.enabled }
    fn callsite_enabled(&self, m: &'static Metadata<'static>) -> Interest { hit(self.i, F_CALLSITE_ENABLED, addr(m), 0); interest_of(self.c.interest) }
    fn max_level_hint(&self) -> Option<LevelFilter> { hit(self.i, F_MAX_LEVEL_HINT, 0, 0); filter_of(self.c.hint) }
    fn event_enabled(&self, e: &Event<'_>, _: &Context<'_, C>) -> bool { hit(self.i, F_EVENT_ENABLED, addr(e), 0); self.c.ev_enabled }
    fn on_new_span(&self, a: &span::Attributes<'_>, id: &span::Id, _: Context<'_, C>) { hit(self.i, F_ON_NEW_SPAN, addr(a), id.into_u64() as usize) }
    fn on_record(&self, s: &span::Id, v: &span::Record<'_>, _: Context<'_, C>) { hit(self.i, F_ON_RECORD, addr(s), addr(v)) }
    fn on_enter(&self, s: &span::Id, _: Context<'_, C>) { hit(self.i, F_ON_ENTER, addr(s), 0) }
    fn on_exit(&self, s: &span::Id, _: Context<'_, C>) { hit(self.i, F_ON_EXIT, addr(s), 0) }
    fn on_close(&self, s: span::Id, _: Context<'_, C>) { hit(self.i, F_ON_CLOSE, s.into_u64() as usize, 0) }
}
/// Recording root collector (instance 2)
struct RecC { c: Cfg }
impl Collect for RecC {
    fn on_register_dispatch(&self, d: &Dispatch) { hit(2, C_ON_REGISTER_DISPATCH, addr(d), 0) }
    fn register_callsite(&self, m: &'static Metadata<'static>) -> Interest { hit(2, C_REGISTER_CALLSITE, addr(m), 0); interest_of(self.c.interest) }
    fn enabled(&self, m: &Metadata<'_>) -> bool { hit(2, C_ENABLED, addr(m), 0); self.c.enabled }
    fn max_level_hint(&self) -> Option<LevelFilter> { hit(2, C_MAX_LEVEL_HINT, 0, 0); filter_of(self.c.hint) }
    fn new_span(&self, a: &span::Attributes<'_>) -> span::Id { hit(2, C_NEW_SPAN, addr(a), 0); span::Id::from_u64(self.c.new_id) }
    fn record(&self, s: &span::Id, v: &span::Record<'_>) { hit(2, C_RECORD, addr(s), addr(v)) }
    fn record_follows_from(&self, s: &span::Id, f: &span::Id) { hit(2, C_FOLLOWS, addr(s), addr(f)) }
    fn event_enabled(&self, e: &Event<'_>) -> bool { hit(2, C_EVENT_ENABLED, addr(e), 0); self.c.ev_enabled }
    fn event(&self, e: &Event<'_>) { hit(2, C_EVENT, addr(e), 0) }
    fn enter(&self, s: &span::Id) { hit(2, C_ENTER, addr(s), 0) }
    fn exit(&self, s: &span::Id) { hit(2, C_EXIT, addr(s), 0) }
    fn clone_span(&self, s: &span::Id) -> span::Id { hit(2, C_CLONE_SPAN, addr(s), 0); if self.c.clone_same { s.clone() } else { span::Id::from_u64(self.c.new_id) } }
    fn drop_span(&self, s: span::Id) { hit(2, C_DROP_SPAN, s.into_u64() as usize, 0) }
    fn try_close(&self, s: span::Id) -> bool { hit(2, C_TRY_CLOSE, s.into_u64() as usize, 0); self.c.close }
    fn current_span(&self) -> span::Current { hit(2, C_CURRENT_SPAN, 0, 0); span::Current::new(span::Id::from_u64(self.c.new_id), &META) }
    unsafe fn downcast_raw(&self, id: TypeId) -> Option<NonNull<()>> { hit(2, C_DOWNCAST_RAW, 0, 0); if id == TypeId::of::<Self>() { Some(NonNull::from(self).cast()) } else { None } }
}
/// silent root used only to build a Context
struct Root;
impl Collect for Root {
    fn enabled(&self, _: &Metadata<'_>) -> bool { true }
    fn new_span(&self, _: &span::Attributes<'_>) -> span::Id { span::Id::from_u64(1) }
    fn record(&self, _: &span::Id, _: &span::Record<'_>) {}
    fn record_follows_from(&self, _: &span::Id, _: &span::Id) {}
    fn event(&self, _: &Event<'_>) {}
    fn enter(&self, _: &span::Id) {}
    fn exit(&self, _: &span::Id) {}
    fn current_span(&self) -> span::Current { span::Current::unknown() }
}
static ROOT: Root = Root;
fn ctx() -> Context<'static, Root> { Context::new(&ROOT) }

// ---- one cell of the Subscribe matrix. `$exp`: which instances must see the call:
//   one   = instance 0 exactly once, result = its result
//   absent = nobody is called; result = what an absent layer contributes (accept everything, no opinion)
//   pair  = instances 0 (outer) and 1 (inner) exactly once each
macro_rules! scell {
    (@chk one, $m:expr) => { assert!(only(0, $m), "C09.forwarded_exactly_once_and_nothing_else_called"); };
    (@chk absent, $m:expr) => { assert!(silent(0) && silent(1), "C09.absent_layer_is_not_called"); };
    (@chk vec2, $m:expr) => { assert!(only(0, $m) && only(1, $m), "C09.every_element_called_exactly_once"); };
    // short-circuiting queries: a Vec may stop asking at the first veto / first missing hint
    (@chkv one, $m:expr) => { assert!(only(0, $m), "C09.forwarded_exactly_once_and_nothing_else_called"); };
    (@chkv absent, $m:expr) => { assert!(silent(0) && silent(1), "C09.absent_layer_is_not_called"); };
    (@chkv vec2, $m:expr) => { assert!(only(0, $m) && (silent(1) || only(1, $m)), "C09.first_element_once_second_at_most_once"); };
    (@arg one, $a:expr) => { assert!(ARG_A[0].load(AO::SeqCst) == $a, "C09.same_argument"); };
    (@arg2 one, $b:expr) => { assert!(ARG_B[0].load(AO::SeqCst) == $b, "C09.same_second_argument"); };
    (@arg2 absent, $b:expr) => {};
    (@arg2 vec2, $b:expr) => { assert!(ARG_B[0].load(AO::SeqCst) == $b && ARG_B[1].load(AO::SeqCst) == $b, "C09.same_second_argument"); };
    (@arg absent, $a:expr) => {};
    (@arg vec2, $a:expr) => { assert!(ARG_A[0].load(AO::SeqCst) == $a && ARG_A[1].load(AO::SeqCst) == $a, "C09.same_argument"); };

    (on_register_dispatch, $w:expr, $c:expr, $exp:ident) => {{ let d = Dispatch::none(); Subscribe::<Root>::on_register_dispatch(&$w, &d); scell!(@chk $exp, S_ON_REGISTER_DISPATCH); scell!(@arg $exp, addr(&d)); }};
    (on_subscribe, $w:expr, $c:expr, $exp:ident) => {{ let mut r = Root; Subscribe::<Root>::on_subscribe(&mut $w, &mut r); scell!(@chk $exp, S_ON_SUBSCRIBE); }};
    (register_callsite, $w:expr, $c:expr, $exp:ident) => {{ let got = Subscribe::<Root>::register_callsite(&$w, &META); scell!(@chk $exp, S_REGISTER_CALLSITE); scell!(@arg $exp, addr(&META)); scell!(@res_interest $exp, got, $c); }};
    (enabled, $w:expr, $c:expr, $exp:ident) => {{ let got = $w.enabled(&META, ctx()); scell!(@chkv $exp, S_ENABLED); scell!(@res_bool $exp, got, $c.enabled); }};
    (on_new_span, $w:expr, $c:expr, $exp:ident) => {{ let vs = META.fields().value_set(&[]); let a = span::Attributes::new(&META, &vs); let id = span::Id::from_u64(7);
        $w.on_new_span(&a, &id, ctx()); scell!(@chk $exp, S_ON_NEW_SPAN); scell!(@arg $exp, addr(&a)); scell!(@arg2 $exp, 7usize); }};
    (max_level_hint, $w:expr, $c:expr, $exp:ident) => {{ let got = Subscribe::<Root>::max_level_hint(&$w); scell!(@chkv $exp, S_MAX_LEVEL_HINT); scell!(@res_hint $exp, got, $c); }};
    (on_record, $w:expr, $c:expr, $exp:ident) => {{ let vs = META.fields().value_set(&[]); let r = span::Record::new(&vs); let id = span::Id::from_u64(7);
        $w.on_record(&id, &r, ctx()); scell!(@chk $exp, S_ON_RECORD); scell!(@arg $exp, addr(&id)); scell!(@arg2 $exp, addr(&r)); }};
    (on_follows_from, $w:expr, $c:expr, $exp:ident) => {{ let id = span::Id::from_u64(7); let f = span::Id::from_u64(8);
        $w.on_follows_from(&id, &f, ctx()); scell!(@chk $exp, S_ON_FOLLOWS_FROM); scell!(@arg $exp, addr(&id)); scell!(@arg2 $exp, addr(&f)); }};
    (event_enabled, $w:expr, $c:expr, $exp:ident) => {{ let vs = META.fields().value_set(&[]); let e = Event::new(&META, &vs);
        let got = $w.event_enabled(&e, ctx()); scell!(@chkv $exp, S_EVENT_ENABLED); scell!(@res_bool $exp, got, $c.ev_enabled); }};
    (on_event, $w:expr, $c:expr, $exp:ident) => {{ let vs = META.fields().value_set(&[]); let e = Event::new(&META, &vs);
        $w.on_event(&e, ctx()); scell!(@chk $exp, S_ON_EVENT); scell!(@arg $exp, addr(&e)); }};
    (on_enter, $w:expr, $c:expr, $exp:ident) => {{ let id = span::Id::from_u64(7); $w.on_enter(&id, ctx()); scell!(@chk $exp, S_ON_ENTER); scell!(@arg $exp, addr(&id)); }};
    (on_exit, $w:expr, $c:expr, $exp:ident) => {{ let id = span::Id::from_u64(7); $w.on_exit(&id, ctx()); scell!(@chk $exp, S_ON_EXIT); scell!(@arg $exp, addr(&id)); }};
    (on_close, $w:expr, $c:expr, $exp:ident) => {{ let k: u64 = nd(); kani::assume(k != 0); $w.on_close(span::Id::from_u64(k), ctx()); scell!(@chk $exp, S_ON_CLOSE); scell!(@arg $exp, k as usize); }};
    (on_id_change, $w:expr, $c:expr, $exp:ident) => {{ let o = span::Id::from_u64(7); let n = span::Id::from_u64(8); $w.on_id_change(&o, &n, ctx()); scell!(@chk $exp, S_ON_ID_CHANGE); scell!(@arg $exp, 7usize); scell!(@arg2 $exp, 8usize); }};
    (downcast_raw, $w:expr, $c:expr, $exp:ident) => {{ let got = unsafe { Subscribe::<Root>::downcast_raw(&$w, TypeId::of::<RecS>()) }; scell!(@res_downcast $exp, got); }};

    (@res_interest one, $got:expr, $c:expr) => { assert!(icode(&$got) == $c.interest, "C09.result_unchanged"); };
    (@res_interest absent, $got:expr, $c:expr) => { assert!($got.is_always(), "C09.absent_layer_has_no_objection"); };
    (@res_interest vec2, $got:expr, $c:expr) => {};
    (@res_bool one, $got:expr, $v:expr) => { assert!($got == $v, "C09.result_unchanged"); };
    (@res_bool absent, $got:expr, $v:expr) => { assert!($got, "C09.absent_layer_has_no_objection"); };
    (@res_bool vec2, $got:expr, $v:expr) => { assert!($got == $v, "C09.Vec.verdict_is_conjunction_of_elements"); };
    (@res_hint one, $got:expr, $c:expr) => { assert!($got == filter_of($c.hint), "C09.result_unchanged"); };
    (@res_hint absent, $got:expr, $c:expr) => {};
    (@res_hint vec2, $got:expr, $c:expr) => {};
    (@res_downcast one, $got:expr) => { assert!($got.is_some() && CNT[0][S_DOWNCAST_RAW].load(AO::SeqCst) >= 1, "C09.downcast_reaches_the_wrapped_layer"); };
    (@res_downcast absent, $got:expr) => { assert!($got.is_none(), "C09.absent_layer_downcasts_to_nothing"); };
    (@res_downcast vec2, $got:expr) => { assert!($got.is_some(), "C09.downcast_reaches_an_element"); };
}

// ---- Filter matrix cell
macro_rules! fcell {
    (@chk one, $m:expr) => { assert!(only(0, $m), "C09.forwarded_exactly_once_and_nothing_else_called"); };
    (@chk absent, $m:expr) => { assert!(silent(0), "C09.absent_filter_is_not_called"); };
    (@farg one, $a:expr, $b:expr) => { assert!(ARG_A[0].load(AO::SeqCst) == $a && ARG_B[0].load(AO::SeqCst) == $b, "C09.same_arguments"); };
    (@farg absent, $a:expr, $b:expr) => {};
    (enabled, $w:expr, $c:expr, $exp:ident) => {{ let cx = ctx(); let got = Filter::<Root>::enabled(&$w, &META, &cx); fcell!(@chk $exp, F_ENABLED); fcell!(@farg $exp, addr(&META), 0usize); fcell!(@res_bool $exp, got, $c.enabled); }};
    (callsite_enabled, $w:expr, $c:expr, $exp:ident) => {{ let got = Filter::<Root>::callsite_enabled(&$w, &META); fcell!(@chk $exp, F_CALLSITE_ENABLED); fcell!(@farg $exp, addr(&META), 0usize); fcell!(@res_interest $exp, got, $c); }};
    (max_level_hint, $w:expr, $c:expr, $exp:ident) => {{ let got = Filter::<Root>::max_level_hint(&$w); fcell!(@chk $exp, F_MAX_LEVEL_HINT); fcell!(@res_hint $exp, got, $c); }};
    (event_enabled, $w:expr, $c:expr, $exp:ident) => {{ let vs = META.fields().value_set(&[]); let e = Event::new(&META, &vs); let cx = ctx();
        let got = Filter::<Root>::event_enabled(&$w, &e, &cx); fcell!(@chk $exp, F_EVENT_ENABLED); fcell!(@farg $exp, addr(&e), 0usize); fcell!(@res_bool $exp, got, $c.ev_enabled); }};
    (on_new_span, $w:expr, $c:expr, $exp:ident) => {{ let vs = META.fields().value_set(&[]); let a = span::Attributes::new(&META, &vs); let id = span::Id::from_u64(7);
        Filter::<Root>::on_new_span(&$w, &a, &id, ctx()); fcell!(@chk $exp, F_ON_NEW_SPAN); fcell!(@farg $exp, addr(&a), 7usize); }};
    (on_record, $w:expr, $c:expr, $exp:ident) => {{ let vs = META.fields().value_set(&[]); let r = span::Record::new(&vs); let id = span::Id::from_u64(7);
        Filter::<Root>::on_record(&$w, &id, &r, ctx()); fcell!(@chk $exp, F_ON_RECORD); fcell!(@farg $exp, addr(&id), addr(&r)); }};
    (on_enter, $w:expr, $c:expr, $exp:ident) => {{ let id = span::Id::from_u64(7); Filter::<Root>::on_enter(&$w, &id, ctx()); fcell!(@chk $exp, F_ON_ENTER); fcell!(@farg $exp, addr(&id), 0usize); }};
    (on_exit, $w:expr, $c:expr, $exp:ident) => {{ let id = span::Id::from_u64(7); Filter::<Root>::on_exit(&$w, &id, ctx()); fcell!(@chk $exp, F_ON_EXIT); fcell!(@farg $exp, addr(&id), 0usize); }};
    (on_close, $w:expr, $c:expr, $exp:ident) => {{ Filter::<Root>::on_close(&$w, span::Id::from_u64(7), ctx()); fcell!(@chk $exp, F_ON_CLOSE); fcell!(@farg $exp, 7usize, 0usize); }};
    (@res_bool one, $got:expr, $v:expr) => { assert!($got == $v, "C09.result_unchanged"); };
    (@res_bool absent, $got:expr, $v:expr) => { assert!($got, "C09.absent_filter_accepts"); };
    (@res_interest one, $got:expr, $c:expr) => { assert!(icode(&$got) == $c.interest, "C09.result_unchanged"); };
    (@res_interest absent, $got:expr, $c:expr) => { assert!($got.is_always(), "C09.absent_filter_accepts"); };
    (@res_hint one, $got:expr, $c:expr) => { assert!($got == filter_of($c.hint), "C09.result_unchanged"); };
    (@res_hint absent, $got:expr, $c:expr) => { assert!($got.is_none(), "C09.absent_filter_has_no_hint"); };
}

// ---- Layered<outer RecS(0), inner> : span/event notifications reach inner then outer, each exactly once
macro_rules! lsub { ($c0:expr, $c1:expr) => { Layered::<RecS, RecS, Root>::new(RecS { i: 0, c: $c0 }, RecS { i: 1, c: $c1 }, false) }; }
macro_rules! lcell_sub {
    (@both $m:expr) => { assert!(only(0, $m) && only(1, $m), "C09.Layered.both_layers_exactly_once"); };
    (@order $m:expr) => { assert!(before(1, $m, 0, $m), "C09.Layered.inner_before_outer"); };
    (@args $a:expr, $b:expr) => { assert!(ARG_A[0].load(AO::SeqCst) == $a && ARG_A[1].load(AO::SeqCst) == $a && ARG_B[0].load(AO::SeqCst) == $b && ARG_B[1].load(AO::SeqCst) == $b, "C09.Layered.both_layers_get_the_same_arguments_in_the_same_positions"); };
    (on_register_dispatch, $w:expr) => {{ let d = Dispatch::none(); Subscribe::<Root>::on_register_dispatch(&$w, &d); lcell_sub!(@both S_ON_REGISTER_DISPATCH); lcell_sub!(@args addr(&d), 0usize); }};
    (on_subscribe, $w:expr) => {{ let mut r = Root; Subscribe::<Root>::on_subscribe(&mut $w, &mut r); lcell_sub!(@both S_ON_SUBSCRIBE); }};
    (on_new_span, $w:expr) => {{ let vs = META.fields().value_set(&[]); let a = span::Attributes::new(&META, &vs); let id = span::Id::from_u64(7); $w.on_new_span(&a, &id, ctx()); lcell_sub!(@both S_ON_NEW_SPAN); lcell_sub!(@order S_ON_NEW_SPAN); lcell_sub!(@args addr(&a), 7usize); }};
    (on_record, $w:expr) => {{ let vs = META.fields().value_set(&[]); let r = span::Record::new(&vs); let id = span::Id::from_u64(7); $w.on_record(&id, &r, ctx()); lcell_sub!(@both S_ON_RECORD); lcell_sub!(@order S_ON_RECORD); lcell_sub!(@args addr(&id), addr(&r)); }};
    (on_follows_from, $w:expr) => {{ let id = span::Id::from_u64(7); let f = span::Id::from_u64(8); $w.on_follows_from(&id, &f, ctx()); lcell_sub!(@both S_ON_FOLLOWS_FROM); lcell_sub!(@order S_ON_FOLLOWS_FROM); lcell_sub!(@args addr(&id), addr(&f)); }};
    (on_event, $w:expr) => {{ let vs = META.fields().value_set(&[]); let e = Event::new(&META, &vs); $w.on_event(&e, ctx()); lcell_sub!(@both S_ON_EVENT); lcell_sub!(@order S_ON_EVENT); lcell_sub!(@args addr(&e), 0usize); }};
    (on_enter, $w:expr) => {{ let id = span::Id::from_u64(7); $w.on_enter(&id, ctx()); lcell_sub!(@both S_ON_ENTER); lcell_sub!(@order S_ON_ENTER); lcell_sub!(@args addr(&id), 0usize); }};
    (on_exit, $w:expr) => {{ let id = span::Id::from_u64(7); $w.on_exit(&id, ctx()); lcell_sub!(@both S_ON_EXIT); lcell_sub!(@order S_ON_EXIT); lcell_sub!(@args addr(&id), 0usize); }};
    (on_close, $w:expr) => {{ $w.on_close(span::Id::from_u64(7), ctx()); lcell_sub!(@both S_ON_CLOSE); lcell_sub!(@order S_ON_CLOSE); lcell_sub!(@args 7usize, 0usize); }};
    (on_id_change, $w:expr) => {{ let o = span::Id::from_u64(7); let n = span::Id::from_u64(8); $w.on_id_change(&o, &n, ctx()); lcell_sub!(@both S_ON_ID_CHANGE); lcell_sub!(@order S_ON_ID_CHANGE); lcell_sub!(@args 7usize, 8usize); }};
}

// ---- Layered<RecS(0), RecC(2)> as a Collect: the stack `collector.with(layer)`
fn stub_pool_clear<T: sharded_slab::Clear + Default, C: sharded_slab::Config>(_p: &sharded_slab::Pool<T, C>, _key: usize) -> bool { true }
fn stack(c0: Cfg, cc: Cfg) -> Layered<RecS, RecC> { let l = RecC { c: cc }.with(RecS { i: 0, c: c0 }); reset(); l }
macro_rules! lc_harness {
    ($name:ident, |$l:ident, $c0:ident, $cc:ident| $body:block) => {
        #[kani::proof]
        #[kani::unwind(22)]
        #[kani::stub(core::fmt::Formatter::pad, pad_stub)]
        #[kani::stub(sharded_slab::Pool::clear, stub_pool_clear)]
        fn $name() { let $c0 = Cfg::any(); let $cc = Cfg::any(); let $l = stack($c0, $cc); $body }
    };
}
