import os, re, importlib.util
_c01 = os.path.join(os.path.dirname(os.path.dirname(os.path.abspath(__file__))), "C01", "plan.py")
_s = importlib.util.spec_from_file_location("plan_C01_for_C09", _c01); _m = importlib.util.module_from_spec(_s); _s.loader.exec_module(_m)


def trait_methods(repo, rel, trait_header):
    """method names of a trait, extracted from the current source"""
    from vlib.overlay import find_matching_brace, AnchorLost
    src = open(os.path.join(repo, rel)).read()
    m = re.search(trait_header, src, re.M)
    if not m:
        raise AnchorLost("trait %r not found in %s" % (trait_header, rel))
    b = src.index("{", m.end() - 1)
    e = find_matching_brace(src, b)
    body = src[b + 1:e]
    # only depth-1 `fn`s (skip fns inside doc examples / default bodies)
    out, depth, i = [], 0, 0
    for line in body.split("\n"):
        s = line.strip()
        if depth == 0 and not s.startswith("//"):
            mm = re.match(r"(?:unsafe\s+)?fn\s+([a-z_0-9]+)", s)
            if mm:
                out.append(mm.group(1))
        code = re.sub(r"//.*", "", line)
        depth += code.count("{") - code.count("}")
    return out


CORE_WRAPPERS = [
    ("box", "let w: Box<Rec> = Box::new(r); let inner = addr(&*w);"),
    ("arc", "let w: std::sync::Arc<Rec> = std::sync::Arc::new(r); let inner = addr(&*w);"),
    ("box_dyn", "let w: Box<dyn Collect + Send + Sync> = Box::new(r); let inner = addr(&*w);"),
]
KNOWN_CORE = {}


def gen_core(repo):
    ms = trait_methods(repo, "tracing-core/src/collect.rs", r"^pub trait Collect\b")
    out = ["\n// ---- generated: %d methods of trait Collect x %d wrappers ----" % (len(ms), len(CORE_WRAPPERS))]
    for wn, mk in CORE_WRAPPERS:
        for m in ms:
            out.append("#[kani::proof]\n#[kani::unwind(18)]\n#[kani::stub(core::fmt::Formatter::pad, pad_stub)]\n"
                       "fn c09_core_%s_%s() { let r = Rec::any(); %s cell!(%s, w, r, inner); }" % (wn, m, mk, m))
    return "\n".join(out) + "\n"


PLAN = dict(
    id="C09",
    level="proof",
    explanation="x",
    kani=[dict(
        crate="tracing-core", tls_shim=True, once_cell_stub=True,
        modules=[dict(name="__verif_c09", attach="lib",
                      files=["../common/core_prelude.rs", "../common/core_stub.rs", "core_matrix.kani.rs"], generator="gen_core")],
        append=[dict(file="tracing-core/src/dispatch.rs", text=_m.DISPATCH_HELPER, kind="cfg(kani) constructor helper")],
    )],
    manifest=dict(technique="x", text="x", note="x"),
)
