import os, re, importlib.util
_c01 = os.path.join(os.path.dirname(os.path.dirname(os.path.abspath(__file__))), "C01", "plan.py")
_s = importlib.util.spec_from_file_location("plan_C01_for_C09", _c01); _m = importlib.util.module_from_spec(_s); _s.loader.exec_module(_m)


def trait_methods(repo, rel, trait_header):
    """method names of a trait, extracted from the current source"""
    from vlib.overlay import find_matching_brace, AnchorLost
    src = open(os.path.join(repo, rel)).read()
    m = re.search(trait_header, src, re.M)
    if not m:
        raise AnchorLost("trait %r not found in %s" % (trait_header, rel))
    b = src.index("{", m.end() - 1)
    e = find_matching_brace(src, b)
    body = src[b + 1:e]
    # only depth-1 `fn`s (skip fns inside doc examples / default bodies)
    out, depth, i = [], 0, 0
    for line in body.split("\n"):
        s = line.strip()
        if depth == 0 and not s.startswith("//"):
            mm = re.match(r"(?:unsafe\s+)?fn\s+([a-z_0-9]+)", s)
            if mm:
                out.append(mm.group(1))
        code = re.sub(r"//.*", "", line)
        depth += code.count("{") - code.count("}")
    return out


CORE_WRAPPERS = [
    ("box", "let w: Box<Rec> = Box::new(r); let inner = addr(&*w);"),
    ("arc", "let w: std::sync::Arc<Rec> = std::sync::Arc::new(r); let inner = addr(&*w);"),
    ("box_dyn", "let w: Box<dyn Collect + Send + Sync> = Box::new(r); let inner = addr(&*w);"),
]
KNOWN_CORE = {}
DISPATCH_METHODS = ["register_callsite", "max_level_hint", "new_span", "record", "record_follows_from", "enabled", "enter", "exit", "clone_span", "drop_span", "try_close", "current_span"]


def gen_core(repo):
    ms = trait_methods(repo, "tracing-core/src/collect.rs", r"^pub trait Collect\b")
    out = ["\n// ---- generated: %d methods of trait Collect x %d wrappers ----" % (len(ms), len(CORE_WRAPPERS))]
    for wn, mk in CORE_WRAPPERS:
        for m in ms:
            out.append("#[kani::proof]\n#[kani::unwind(18)]\n#[kani::stub(core::fmt::Formatter::pad, pad_stub)]\n"
                       "fn c09_core_%s_%s() { let r = Rec::any(); %s cell!(%s, w, r, inner); }" % (wn, m, mk, m))
    # Dispatch itself is a pass-through handle: its inherent methods of the same name forward to the collector it holds
    # (Dispatch::event is `event_enabled` then `event` and has a hand-written cell in core_matrix.kani.rs)
    for m in ms:
        if m in DISPATCH_METHODS:
            out.append("#[kani::proof]\n#[kani::unwind(18)]\n#[kani::stub(core::fmt::Formatter::pad, pad_stub)]\n"
                       "fn c09_core_dispatch_%s() { let r = Rec::any(); let w = Dispatch::__verif_unregistered(r); let inner = 0usize; cell!(%s, w, r, inner); core::mem::forget(w); }" % (m, m))
    return "\n".join(out) + "\n"


SUB = "tracing-subscriber/src/subscribe/mod.rs"
SUB_COMBINATORS = ["and_then", "with_collector", "with_filter", "boxed"]   # constructors, not notifications
HDR = "#[kani::proof]\n#[kani::unwind(22)]\n#[kani::stub(core::fmt::Formatter::pad, pad_stub)]\n"
SUB_WRAPPERS = [
    ("box", "one", "let mut w: Box<RecS> = Box::new(RecS { i: 0, c });"),
    ("box_dyn", "one", "let mut w: Box<dyn Subscribe<Root> + Send + Sync + 'static> = Box::new(RecS { i: 0, c });"),
    ("some", "one", "let mut w: Option<RecS> = Some(RecS { i: 0, c });"),
    ("vec1", "one", "let mut w: Vec<RecS> = vec![RecS { i: 0, c }];"),
    ("reload", "one", "let (mut w, _h) = reload::Subscriber::new(RecS { i: 0, c });"),
    ("none", "absent", "let mut w: Option<RecS> = None;"),
    ("vec0", "absent", "let mut w: Vec<RecS> = Vec::new();"),
    ("identity", "absent", "let mut w = Identity::new();"),
    ("vec2", "vec2", "let mut w: Vec<RecS> = vec![RecS { i: 0, c }, RecS { i: 1, c }];"),
]
FIL_WRAPPERS = [
    ("box_dyn", "one", "let w: Box<dyn Filter<Root> + Send + Sync + 'static> = Box::new(RecF { i: 0, c });"),
    ("arc_dyn", "one", "let w: std::sync::Arc<dyn Filter<Root> + Send + Sync + 'static> = std::sync::Arc::new(RecF { i: 0, c });"),
    ("some", "one", "let w: Option<RecF> = Some(RecF { i: 0, c });"),
    ("reload", "one", "let (w, _h) = reload::Subscriber::new(RecF { i: 0, c });"),
    ("none", "absent", "let w: Option<RecF> = None;"),
]
LAYERED_SUB_METHODS = ["on_register_dispatch", "on_subscribe", "on_new_span", "on_record", "on_follows_from", "on_event", "on_enter", "on_exit", "on_close", "on_id_change"]


def gen_sub(repo):
    sm = [m for m in trait_methods(repo, SUB, r"^pub trait Subscribe<") if m not in SUB_COMBINATORS]
    fm = [m for m in trait_methods(repo, SUB, r"^pub trait Filter<") ]
    out = ["\n// ---- generated: %d Subscribe methods x %d wrappers, %d Filter methods x %d wrappers ----" % (len(sm), len(SUB_WRAPPERS), len(fm), len(FIL_WRAPPERS))]
    for wn, exp, mk in SUB_WRAPPERS:
        for m in sm:
            if wn == "reload" and m == "downcast_raw":
                continue   # documented exception: a reload handle refuses downcasts (pointer would dangle after a reload)
            bound = "// BOUND: Vec of exactly 2 layers\n" if wn == "vec2" else ""
            out.append(bound + HDR + "fn c09_sub_%s_%s() { let c = Cfg::any(); %s reset(); scell!(%s, w, c, %s); }" % (wn, m, mk, m, exp))
    for wn, exp, mk in FIL_WRAPPERS:
        for m in fm:
            out.append(HDR + "fn c09_filter_%s_%s() { let c = Cfg::any(); %s reset(); fcell!(%s, w, c, %s); }" % (wn, m, mk, m, exp))
    # every span/event notification of trait Subscribe must have a Layered ordering cell
    notif = [m for m in sm if m.startswith("on_")]
    for m in notif:
        out.append(HDR + "fn c09_layered_sub_%s() { let c0 = Cfg::any(); let c1 = Cfg::any(); let mut w = lsub!(c0, c1); reset(); lcell_sub!(%s, w); }" % (m, m))
    return "\n".join(out) + "\n"


def build_counting(ex):
    return open(os.path.join(os.path.dirname(os.path.abspath(__file__)), "lemma_c09.verus.rs")).read()


PLAN = dict(
    id="C09", api_files=['tracing-subscriber/src/subscribe/layered.rs'],
    level="proof",
    explanation="Wrapper x trait-method matrix. The method lists of trait Collect, trait Subscribe and trait Filter are extracted from /repo on every run; for every (wrapper, method) one loop-free harness calls the method on the real wrapper around a recording stub and requires: the same method of the wrapped value is called exactly once and nothing else is, with the identical argument (pointer / id), and the symbolic result comes back unchanged. Wrappers: Box<C>, Arc<C>, Box<dyn Collect> (Collect); Box<S>, Box<dyn Subscribe>, Some, one-element Vec, reload::Subscriber, None / empty Vec / Identity ('as if absent'), two-element Vec (bounded), Layered of two layers (both once, inner before outer) (Subscribe); Box<dyn>, Arc<dyn>, Some, reload, None (Filter); Layered<layer, collector> as a Collect: collector before layer, veto semantics, on_close only after the collector closed. A trait method without a cell does not compile (=> undecided), so a method added later cannot be silently unforwarded.",
    functions_under_contract=['tracing-core/src/collect.rs: impl Collect for Box<C>, Arc<C>', 'tracing-core/src/dispatch.rs: Dispatch::{register_callsite,max_level_hint,new_span,record,record_follows_from,enabled,event,enter,exit,clone_span,drop_span,try_close,current_span} forward to the collector the Dispatch holds', 'tracing-subscriber/src/subscribe/mod.rs: impl Subscribe for Option<S>, Box<S>, Box<dyn Subscribe>, Vec<S>, Identity (subscriber_impl_body!)', 'subscribe/layered.rs: impl Collect for Layered, impl Subscribe for Layered', 'reload.rs: impl Subscribe / Filter for reload::Subscriber', 'filter/subscriber_filters/mod.rs: filter_impl_body! (Box/Arc dyn Filter), impl Filter for Option<F>'],
    trusted_base=["Kani 0.68 / CBMC 6.11 / CaDiCaL; Kani's std build (nightly-2026-08-21), not the repo toolchain's", 'core::fmt::Formatter::pad stubbed to Ok(()) with -Z stubbing (panic-message formatting on infeasible error branches; no harness that uses it reads formatted text)', 'Pool::clear stub (Layered::try_close mentions Registry)'],
    assumptions=["the lift from the per-node cells to stacks of any shape and depth (every layer exactly once; as many notifications of each kind as occurred) is mechanised in Verus (lemma_c09.verus.rs) over node facts that are exactly the cells: wrapper forwards once, pair forwards once to each part", "ordering clause read as applying to span/event notifications; register_callsite / on_register_dispatch / on_subscribe only 'exactly once' (the code is outer-first there by construction)", 'downcast_raw is type introspection, not a notification: it may be called additionally (Layered::try_close looks for a Registry)', 'reload::Subscriber refuses downcasts by design (documented), so that cell is excluded'],
    not_covered=["fmt::Collector (wraps the real Registry, out of Kani's reach) - its missing on_register_dispatch forwarding was repaired together with Layered's", 'Arc<S> as Subscribe does not exist in this tree'],
    verus=[dict(name="counting", builder="build_counting", obligations=["absent_gets_nothing", "every_layer_exactly_once", "history_counts"])],
    kani=[dict(
        crate="tracing-core", tls_shim=True, once_cell_stub=True,
        modules=[dict(name="__verif_c09", attach="lib",
                      files=["../common/core_prelude.rs", "../common/core_stub.rs", "core_matrix.kani.rs"], generator="gen_core")],
        append=[dict(file="tracing-core/src/dispatch.rs", text=_m.DISPATCH_HELPER, kind="cfg(kani) constructor helper")],
    ), dict(
        crate="tracing-subscriber", tls_shim_crates=["tracing-core", "tracing-subscriber"], once_cell_stub=True, tag="sub",
        modules=[dict(name="__verif_c09", attach="inline", file=SUB, modpath="subscribe",
                      files=["sub_matrix.kani.rs", "layered_collect.kani.rs"], generator="gen_sub")],
    )],
    manifest=dict(technique='generated wrapper x method matrix of loop-free Kani harnesses on the real forwarding impls, method lists extracted from the trait definitions each run',
        text='One machine-checked obligation per (wrapper, trait method): exactly-once forwarding with identical arguments and unchanged result, absent wrappers contribute nothing, Layered delivers inner before outer and honours vetoes. 250+ cells, complete over the trait method lists as they are in /repo at run time. Found and repaired: F4, F5, F7, F11, F12.',
        note='Trusted: Kani/CBMC, stubs. Bounded: Vec of 2. Interpretation of the ordering clause stated in evidence.',
        design_ref="DESIGN.md section 4, C09"),
)
