// C09 (tracing-core part) — `Box<C>` and `Arc<C>` are transparent `Collect` wrappers:
// one obligation per (wrapper, trait method). The harness list is generated on every run from the
// method list of `trait Collect` in /repo (contracts/C09/plan.py); a method without a `cell!` arm does not
// compile (=> undecided), so a method added to the trait later cannot be silently unforwarded.
use crate::{collect::Collect, span, Event, Metadata, Dispatch};
use core::sync::atomic::{AtomicUsize, Ordering as AO};
use core::any::TypeId;
use core::ptr::NonNull;
use vstub::META0;

const NM: usize = 16;
vstatic!(CALLS: [AtomicUsize; NM] = [
    AtomicUsize::new(0), AtomicUsize::new(0), AtomicUsize::new(0), AtomicUsize::new(0), AtomicUsize::new(0), AtomicUsize::new(0),
    AtomicUsize::new(0), AtomicUsize::new(0), AtomicUsize::new(0), AtomicUsize::new(0), AtomicUsize::new(0), AtomicUsize::new(0),
    AtomicUsize::new(0), AtomicUsize::new(0), AtomicUsize::new(0), AtomicUsize::new(0)]);
vstatic!(ARG_A: AtomicUsize = AtomicUsize::new(0));
vstatic!(ARG_B: AtomicUsize = AtomicUsize::new(0));
fn addr<T: ?Sized>(t: &T) -> usize { t as *const T as *const () as usize }
fn hit(m: usize, a: usize, b: usize) { CALLS[m].fetch_add(1, AO::SeqCst); ARG_A.store(a, AO::SeqCst); ARG_B.store(b, AO::SeqCst); }
/// exactly one call, of method `m`, on the wrapped collector
fn only(m: usize) -> bool {
    let mut i = 0; let mut ok = true;
    while i < NM { let c = CALLS[i].load(AO::SeqCst); if (i == m && c != 1) || (i != m && c != 0) { ok = false; } i += 1; }
    ok
}
const M_ON_REGISTER_DISPATCH: usize = 0; const M_REGISTER_CALLSITE: usize = 1; const M_ENABLED: usize = 2; const M_MAX_LEVEL_HINT: usize = 3;
const M_NEW_SPAN: usize = 4; const M_RECORD: usize = 5; const M_RECORD_FOLLOWS_FROM: usize = 6; const M_EVENT_ENABLED: usize = 7;
const M_EVENT: usize = 8; const M_ENTER: usize = 9; const M_EXIT: usize = 10; const M_CLONE_SPAN: usize = 11; const M_DROP_SPAN: usize = 12;
const M_TRY_CLOSE: usize = 13; const M_CURRENT_SPAN: usize = 14; const M_DOWNCAST_RAW: usize = 15;

/// Recording collector: every method logs itself and returns the (symbolic) value fixed at construction.
#[derive(Clone, Copy)]
pub(crate) struct Rec { interest: u8, enabled: bool, hint: u8, new_id: u64, ev_enabled: bool, clone_id: u64, close: bool, cur_id: u64 }
impl Rec {
    fn any() -> Rec {
        let r = Rec { interest: nd(), enabled: nd(), hint: nd(), new_id: nd(), ev_enabled: nd(), clone_id: nd(), close: nd(), cur_id: nd() };
        kani::assume(r.interest <= 2 && r.hint <= 6 && r.new_id != 0 && r.clone_id != 0 && r.cur_id != 0);
        r
    }
}
impl Collect for Rec {
    fn on_register_dispatch(&self, d: &Dispatch) { hit(M_ON_REGISTER_DISPATCH, addr(d), 0) }
    fn register_callsite(&self, m: &'static Metadata<'static>) -> Interest { hit(M_REGISTER_CALLSITE, addr(m), 0); interest_of(self.interest) }
    fn enabled(&self, m: &Metadata<'_>) -> bool { hit(M_ENABLED, addr(m), 0); self.enabled }
    fn max_level_hint(&self) -> Option<LevelFilter> { hit(M_MAX_LEVEL_HINT, 0, 0); if self.hint <= 5 { Some(filter_of(self.hint)) } else { None } }
    fn new_span(&self, a: &span::Attributes<'_>) -> span::Id { hit(M_NEW_SPAN, addr(a), 0); span::Id::from_u64(self.new_id) }
    fn record(&self, s: &span::Id, v: &span::Record<'_>) { hit(M_RECORD, addr(s), addr(v)) }
    fn record_follows_from(&self, s: &span::Id, f: &span::Id) { hit(M_RECORD_FOLLOWS_FROM, addr(s), addr(f)) }
    fn event_enabled(&self, e: &Event<'_>) -> bool { hit(M_EVENT_ENABLED, addr(e), 0); self.ev_enabled }
    fn event(&self, e: &Event<'_>) { hit(M_EVENT, addr(e), 0) }
    fn enter(&self, s: &span::Id) { hit(M_ENTER, addr(s), 0) }
    fn exit(&self, s: &span::Id) { hit(M_EXIT, addr(s), 0) }
    fn clone_span(&self, s: &span::Id) -> span::Id { hit(M_CLONE_SPAN, addr(s), 0); span::Id::from_u64(self.clone_id) }
    fn drop_span(&self, s: span::Id) { hit(M_DROP_SPAN, s.into_u64() as usize, 0) }
    fn try_close(&self, s: span::Id) -> bool { hit(M_TRY_CLOSE, s.into_u64() as usize, 0); self.close }
    fn current_span(&self) -> span::Current { hit(M_CURRENT_SPAN, 0, 0); span::Current::new(span::Id::from_u64(self.cur_id), &META0) }
    unsafe fn downcast_raw(&self, id: TypeId) -> Option<NonNull<()>> {
        hit(M_DOWNCAST_RAW, 0, 0);
        if id == TypeId::of::<Self>() { Some(NonNull::from(self).cast()) } else { None }
    }
}

/// one cell: call `$m` on wrapper `$w` (wrapping a `Rec` equal to `$r`, which lives at address `$inner`)
macro_rules! cell {
    (on_register_dispatch, $w:expr, $r:expr, $inner:expr) => {{
        let d = Dispatch::none();
        $w.on_register_dispatch(&d);
        assert!(only(M_ON_REGISTER_DISPATCH), "C09.forwarded_exactly_once_and_nothing_else_called");
        assert!(ARG_A.load(AO::SeqCst) == addr(&d), "C09.same_argument");
    }};
    (register_callsite, $w:expr, $r:expr, $inner:expr) => {{
        let got = $w.register_callsite(&META0);
        assert!(only(M_REGISTER_CALLSITE), "C09.forwarded_exactly_once_and_nothing_else_called");
        assert!(ARG_A.load(AO::SeqCst) == addr(&META0), "C09.same_argument");
        assert!(interest_code(&got) == $r.interest, "C09.result_unchanged");
    }};
    (enabled, $w:expr, $r:expr, $inner:expr) => {{
        let got = $w.enabled(&META0);
        assert!(only(M_ENABLED), "C09.forwarded_exactly_once_and_nothing_else_called");
        assert!(ARG_A.load(AO::SeqCst) == addr(&META0), "C09.same_argument");
        assert!(got == $r.enabled, "C09.result_unchanged");
    }};
    (max_level_hint, $w:expr, $r:expr, $inner:expr) => {{
        let got = $w.max_level_hint();
        assert!(only(M_MAX_LEVEL_HINT), "C09.forwarded_exactly_once_and_nothing_else_called");
        assert!(got == if $r.hint <= 5 { Some(filter_of($r.hint)) } else { None }, "C09.result_unchanged");
    }};
    (new_span, $w:expr, $r:expr, $inner:expr) => {{
        let vs = META0.fields().value_set(&[]);
        let a = span::Attributes::new(&META0, &vs);
        let got = $w.new_span(&a);
        assert!(only(M_NEW_SPAN), "C09.forwarded_exactly_once_and_nothing_else_called");
        assert!(ARG_A.load(AO::SeqCst) == addr(&a), "C09.same_argument");
        assert!(got.into_u64() == $r.new_id, "C09.result_unchanged");
    }};
    (record, $w:expr, $r:expr, $inner:expr) => {{
        let vs = META0.fields().value_set(&[]);
        let rec = span::Record::new(&vs);
        let id = span::Id::from_u64(7);
        $w.record(&id, &rec);
        assert!(only(M_RECORD), "C09.forwarded_exactly_once_and_nothing_else_called");
        assert!(ARG_A.load(AO::SeqCst) == addr(&id) && ARG_B.load(AO::SeqCst) == addr(&rec), "C09.same_argument");
    }};
    (record_follows_from, $w:expr, $r:expr, $inner:expr) => {{
        let id = span::Id::from_u64(7); let f = span::Id::from_u64(8);
        $w.record_follows_from(&id, &f);
        assert!(only(M_RECORD_FOLLOWS_FROM), "C09.forwarded_exactly_once_and_nothing_else_called");
        assert!(ARG_A.load(AO::SeqCst) == addr(&id) && ARG_B.load(AO::SeqCst) == addr(&f), "C09.same_argument");
    }};
    (event_enabled, $w:expr, $r:expr, $inner:expr) => {{
        let vs = META0.fields().value_set(&[]);
        let e = Event::new(&META0, &vs);
        let got = $w.event_enabled(&e);
        assert!(only(M_EVENT_ENABLED), "C09.forwarded_exactly_once_and_nothing_else_called");
        assert!(ARG_A.load(AO::SeqCst) == addr(&e), "C09.same_argument");
        assert!(got == $r.ev_enabled, "C09.result_unchanged");
    }};
    (event, $w:expr, $r:expr, $inner:expr) => {{
        let vs = META0.fields().value_set(&[]);
        let e = Event::new(&META0, &vs);
        $w.event(&e);
        assert!(only(M_EVENT), "C09.forwarded_exactly_once_and_nothing_else_called");
        assert!(ARG_A.load(AO::SeqCst) == addr(&e), "C09.same_argument");
    }};
    (enter, $w:expr, $r:expr, $inner:expr) => {{
        let id = span::Id::from_u64(7);
        $w.enter(&id);
        assert!(only(M_ENTER), "C09.forwarded_exactly_once_and_nothing_else_called");
        assert!(ARG_A.load(AO::SeqCst) == addr(&id), "C09.same_argument");
    }};
    (exit, $w:expr, $r:expr, $inner:expr) => {{
        let id = span::Id::from_u64(7);
        $w.exit(&id);
        assert!(only(M_EXIT), "C09.forwarded_exactly_once_and_nothing_else_called");
        assert!(ARG_A.load(AO::SeqCst) == addr(&id), "C09.same_argument");
    }};
    (clone_span, $w:expr, $r:expr, $inner:expr) => {{
        let id = span::Id::from_u64(7);
        let got = $w.clone_span(&id);
        assert!(only(M_CLONE_SPAN), "C09.forwarded_exactly_once_and_nothing_else_called");
        assert!(ARG_A.load(AO::SeqCst) == addr(&id), "C09.same_argument");
        assert!(got.into_u64() == $r.clone_id, "C09.result_unchanged");
    }};
    (drop_span, $w:expr, $r:expr, $inner:expr) => {{
        let k: u64 = nd(); kani::assume(k != 0);
        #[allow(deprecated)]
        $w.drop_span(span::Id::from_u64(k));
        assert!(only(M_DROP_SPAN), "C09.forwarded_exactly_once_and_nothing_else_called");
        assert!(ARG_A.load(AO::SeqCst) == k as usize, "C09.same_argument");
    }};
    (try_close, $w:expr, $r:expr, $inner:expr) => {{
        let k: u64 = nd(); kani::assume(k != 0);
        let got = $w.try_close(span::Id::from_u64(k));
        assert!(only(M_TRY_CLOSE), "C09.forwarded_exactly_once_and_nothing_else_called");
        assert!(ARG_A.load(AO::SeqCst) == k as usize, "C09.same_argument");
        assert!(got == $r.close, "C09.result_unchanged");
    }};
    (current_span, $w:expr, $r:expr, $inner:expr) => {{
        let got = $w.current_span();
        assert!(only(M_CURRENT_SPAN), "C09.forwarded_exactly_once_and_nothing_else_called");
        assert!(got.id().map(|i| i.into_u64()) == Some($r.cur_id), "C09.result_unchanged");
    }};
    (downcast_raw, $w:expr, $r:expr, $inner:expr) => {{
        // asking for the wrapped type reaches the wrapped value; asking for the wrapper type gives the wrapper
        let got = unsafe { $w.downcast_raw(TypeId::of::<Rec>()) };
        assert!(only(M_DOWNCAST_RAW), "C09.forwarded_exactly_once_and_nothing_else_called");
        assert!(got.map(|p| p.as_ptr() as usize) == Some($inner), "C09.result_unchanged");
    }};
}

// Dispatch::event: the collector's event_enabled is asked exactly once, and event is delivered exactly once iff it said yes
#[kani::proof]
#[kani::unwind(18)]
#[kani::stub(core::fmt::Formatter::pad, pad_stub)]
fn c09_core_dispatch_event() {
    let r = Rec::any();
    let w = Dispatch::__verif_unregistered(r);
    let vs = META0.fields().value_set(&[]);
    let e = Event::new(&META0, &vs);
    w.event(&e);
    assert!(CALLS[M_EVENT_ENABLED].load(AO::SeqCst) == 1, "C09.dispatch.event.asks_event_enabled_once");
    assert!(CALLS[M_EVENT].load(AO::SeqCst) == r.ev_enabled as usize, "C09.dispatch.event.delivered_once_iff_event_enabled");
    let mut i = 0; while i < NM { if i != M_EVENT && i != M_EVENT_ENABLED { assert!(CALLS[i].load(AO::SeqCst) == 0, "C09.dispatch.event.nothing_else_called"); } i += 1; }
    assert!(r.ev_enabled == false || ARG_A.load(AO::SeqCst) == addr(&e), "C09.dispatch.event.same_argument");
    core::mem::forget(w);
}
