use vstd::prelude::*;
verus! {
// ---- C09 lemma layer (pure Verus): counting by structural induction over the shape of a stack.
// A stack is a layer (leaf k), a transparent wrapper around a stack (Box, Arc, Option::Some, reload, Filtered's
// pass-through, fmt::Collector, ...), or a Layered pair.  The per-node facts are exactly what the Kani cells of
// core_matrix / sub_matrix / layered_collect discharge on the real impls, for every notification kind:
//   wrapper: forwards the notification to what it wraps exactly once, with the same arguments;
//   pair:    forwards it exactly once to the outer part and exactly once to the inner part, same arguments.
// `got(s, k)` is the number of times leaf k is handed ONE notification delivered to stack s under those facts.
pub enum Stack { Leaf(int), Wrap(Box<Stack>), Pair(Box<Stack>, Box<Stack>) }

pub open spec fn got(s: Stack, k: int) -> int decreases s {
    match s {
        Stack::Leaf(j) => if j == k { 1 } else { 0 },
        Stack::Wrap(a) => got(*a, k),
        Stack::Pair(a, b) => got(*a, k) + got(*b, k),
    }
}
pub open spec fn leaves(s: Stack) -> Set<int> decreases s {
    match s { Stack::Leaf(j) => set![j], Stack::Wrap(a) => leaves(*a), Stack::Pair(a, b) => leaves(*a).union(leaves(*b)) }
}
// no layer object sits at two places of the stack
pub open spec fn distinct(s: Stack) -> bool decreases s {
    match s { Stack::Leaf(_) => true, Stack::Wrap(a) => distinct(*a),
              Stack::Pair(a, b) => distinct(*a) && distinct(*b) && leaves(*a).disjoint(leaves(*b)) }
}
proof fn absent_gets_nothing(s: Stack, k: int)
    requires !leaves(s).contains(k)
    ensures got(s, k) == 0
    decreases s
{
    match s { Stack::Leaf(_) => {}, Stack::Wrap(a) => { absent_gets_nothing(*a, k); },
              Stack::Pair(a, b) => { absent_gets_nothing(*a, k); absent_gets_nothing(*b, k); } }
}
// every layer of the stack sees one notification exactly once - any depth, any shape, any nesting of wrappers
pub proof fn every_layer_exactly_once(s: Stack, k: int)
    requires distinct(s)
    ensures got(s, k) == if leaves(s).contains(k) { 1int } else { 0int }
    decreases s
{
    match s {
        Stack::Leaf(_) => {}
        Stack::Wrap(a) => { every_layer_exactly_once(*a, k); }
        Stack::Pair(a, b) => {
            every_layer_exactly_once(*a, k); every_layer_exactly_once(*b, k);
            if leaves(*a).contains(k) { assert(!leaves(*b).contains(k)); absent_gets_nothing(*b, k); }
            else if leaves(*b).contains(k) { absent_gets_nothing(*a, k); }
        }
    }
}
// a whole history of notifications: layer k has seen each of them exactly once, hence as many of each kind as occurred
pub open spec fn total(s: Stack, k: int, h: Seq<int>, kind: int) -> int decreases h.len() {
    if h.len() == 0 { 0 } else { total(s, k, h.drop_last(), kind) + if h.last() == kind { got(s, k) } else { 0 } }
}
pub open spec fn occurrences(h: Seq<int>, kind: int) -> int decreases h.len() {
    if h.len() == 0 { 0 } else { occurrences(h.drop_last(), kind) + if h.last() == kind { 1int } else { 0int } }
}
pub proof fn history_counts(s: Stack, k: int, h: Seq<int>, kind: int)
    requires distinct(s), leaves(s).contains(k)
    ensures total(s, k, h, kind) == occurrences(h, kind)
    decreases h.len()
{
    if h.len() > 0 { history_counts(s, k, h.drop_last(), kind); every_layer_exactly_once(s, k); }
}
} // verus!
fn main() {}
