// C09 — Layered<layer, collector> as a Collect: one obligation per Collect method
#[kani::proof]
#[kani::unwind(22)]
#[kani::stub(core::fmt::Formatter::pad, pad_stub)]
#[kani::stub(sharded_slab::Pool::clear, stub_pool_clear)]
fn c09_layered_collect_on_register_dispatch() { let c0 = Cfg::any(); let cc = Cfg::any(); let l = stack(c0, cc); let d = Dispatch::none(); l.on_register_dispatch(&d); assert!(only(2, C_ON_REGISTER_DISPATCH) && only(0, S_ON_REGISTER_DISPATCH), "C09.Layered.collector_and_layer_exactly_once"); }

#[kani::proof]
#[kani::unwind(22)]
#[kani::stub(core::fmt::Formatter::pad, pad_stub)]
#[kani::stub(sharded_slab::Pool::clear, stub_pool_clear)]
fn c09_layered_collect_new_span() { let c0 = Cfg::any(); let cc = Cfg::any(); let l = stack(c0, cc); let vs = META.fields().value_set(&[]); let a = span::Attributes::new(&META, &vs); let id = l.new_span(&a); assert!(only(2, C_NEW_SPAN) && only(0, S_ON_NEW_SPAN), "C09.Layered.collector_and_layer_exactly_once"); assert!(before(2, C_NEW_SPAN, 0, S_ON_NEW_SPAN), "C09.Layered.inner_before_outer"); assert!(id.into_u64() == cc.new_id, "C09.result_unchanged"); assert!(ARG_A[0].load(AO::SeqCst) == addr(&a) && ARG_B[0].load(AO::SeqCst) == cc.new_id as usize, "C09.Layered.layer_sees_same_attributes_and_the_collectors_id"); }

#[kani::proof]
#[kani::unwind(22)]
#[kani::stub(core::fmt::Formatter::pad, pad_stub)]
#[kani::stub(sharded_slab::Pool::clear, stub_pool_clear)]
fn c09_layered_collect_record() { let c0 = Cfg::any(); let cc = Cfg::any(); let l = stack(c0, cc); let vs = META.fields().value_set(&[]); let r = span::Record::new(&vs); let id = span::Id::from_u64(7); l.record(&id, &r); assert!(only(2, C_RECORD) && only(0, S_ON_RECORD), "C09.Layered.collector_and_layer_exactly_once"); assert!(before(2, C_RECORD, 0, S_ON_RECORD), "C09.Layered.inner_before_outer"); assert!(ARG_A[0].load(AO::SeqCst) == addr(&id) && ARG_B[0].load(AO::SeqCst) == addr(&r) && ARG_A[2].load(AO::SeqCst) == addr(&id) && ARG_B[2].load(AO::SeqCst) == addr(&r), "C09.same_arguments"); }

#[kani::proof]
#[kani::unwind(22)]
#[kani::stub(core::fmt::Formatter::pad, pad_stub)]
#[kani::stub(sharded_slab::Pool::clear, stub_pool_clear)]
fn c09_layered_collect_record_follows_from() { let c0 = Cfg::any(); let cc = Cfg::any(); let l = stack(c0, cc); let id = span::Id::from_u64(7); let f = span::Id::from_u64(8); l.record_follows_from(&id, &f); assert!(only(2, C_FOLLOWS) && only(0, S_ON_FOLLOWS_FROM), "C09.Layered.collector_and_layer_exactly_once"); assert!(before(2, C_FOLLOWS, 0, S_ON_FOLLOWS_FROM), "C09.Layered.inner_before_outer"); assert!(ARG_A[0].load(AO::SeqCst) == addr(&id) && ARG_B[0].load(AO::SeqCst) == addr(&f) && ARG_A[2].load(AO::SeqCst) == addr(&id) && ARG_B[2].load(AO::SeqCst) == addr(&f), "C09.same_arguments"); }

#[kani::proof]
#[kani::unwind(22)]
#[kani::stub(core::fmt::Formatter::pad, pad_stub)]
#[kani::stub(sharded_slab::Pool::clear, stub_pool_clear)]
fn c09_layered_collect_event() { let c0 = Cfg::any(); let cc = Cfg::any(); let l = stack(c0, cc); let vs = META.fields().value_set(&[]); let e = Event::new(&META, &vs); l.event(&e); assert!(only(2, C_EVENT) && only(0, S_ON_EVENT), "C09.Layered.collector_and_layer_exactly_once"); assert!(before(2, C_EVENT, 0, S_ON_EVENT), "C09.Layered.inner_before_outer"); assert!(ARG_A[0].load(AO::SeqCst) == addr(&e) && ARG_A[2].load(AO::SeqCst) == addr(&e), "C09.same_argument"); }

#[kani::proof]
#[kani::unwind(22)]
#[kani::stub(core::fmt::Formatter::pad, pad_stub)]
#[kani::stub(sharded_slab::Pool::clear, stub_pool_clear)]
fn c09_layered_collect_enter() { let c0 = Cfg::any(); let cc = Cfg::any(); let l = stack(c0, cc); let id = span::Id::from_u64(7); l.enter(&id); assert!(only(2, C_ENTER) && only(0, S_ON_ENTER), "C09.Layered.collector_and_layer_exactly_once"); assert!(before(2, C_ENTER, 0, S_ON_ENTER), "C09.Layered.inner_before_outer"); assert!(ARG_A[0].load(AO::SeqCst) == addr(&id) && ARG_A[2].load(AO::SeqCst) == addr(&id), "C09.same_arguments"); }

#[kani::proof]
#[kani::unwind(22)]
#[kani::stub(core::fmt::Formatter::pad, pad_stub)]
#[kani::stub(sharded_slab::Pool::clear, stub_pool_clear)]
fn c09_layered_collect_exit() { let c0 = Cfg::any(); let cc = Cfg::any(); let l = stack(c0, cc); let id = span::Id::from_u64(7); l.exit(&id); assert!(only(2, C_EXIT) && only(0, S_ON_EXIT), "C09.Layered.collector_and_layer_exactly_once"); assert!(before(2, C_EXIT, 0, S_ON_EXIT), "C09.Layered.inner_before_outer"); assert!(ARG_A[0].load(AO::SeqCst) == addr(&id) && ARG_A[2].load(AO::SeqCst) == addr(&id), "C09.same_arguments"); }

#[kani::proof]
#[kani::unwind(22)]
#[kani::stub(core::fmt::Formatter::pad, pad_stub)]
#[kani::stub(sharded_slab::Pool::clear, stub_pool_clear)]
fn c09_layered_collect_enabled() { let c0 = Cfg::any(); let cc = Cfg::any(); let l = stack(c0, cc); let got = l.enabled(&META); assert!(only(0, S_ENABLED), "C09.Layered.layer_asked_exactly_once"); if c0.enabled { assert!(only(2, C_ENABLED) && got == cc.enabled, "C09.Layered.collector_asked_once_result_is_conjunction"); } else { assert!(silent(2) && !got, "C09.Layered.veto_stops_delivery"); } }

#[kani::proof]
#[kani::unwind(22)]
#[kani::stub(core::fmt::Formatter::pad, pad_stub)]
#[kani::stub(sharded_slab::Pool::clear, stub_pool_clear)]
fn c09_layered_collect_event_enabled() { let c0 = Cfg::any(); let cc = Cfg::any(); let l = stack(c0, cc); let vs = META.fields().value_set(&[]); let e = Event::new(&META, &vs); let got = l.event_enabled(&e); assert!(only(0, S_EVENT_ENABLED), "C09.Layered.layer_asked_exactly_once"); if c0.ev_enabled { assert!(only(2, C_EVENT_ENABLED) && got == cc.ev_enabled, "C09.Layered.collector_asked_once_result_is_conjunction"); } else { assert!(silent(2) && !got, "C09.Layered.veto_stops_delivery"); } }

#[kani::proof]
#[kani::unwind(22)]
#[kani::stub(core::fmt::Formatter::pad, pad_stub)]
#[kani::stub(sharded_slab::Pool::clear, stub_pool_clear)]
fn c09_layered_collect_try_close() { let c0 = Cfg::any(); let cc = Cfg::any(); let l = stack(c0, cc); let got = l.try_close(span::Id::from_u64(7)); assert!(only(2, C_TRY_CLOSE) && got == cc.close, "C09.Layered.collector_try_close_once_result_unchanged"); if cc.close { assert!(only(0, S_ON_CLOSE) && before(2, C_TRY_CLOSE, 0, S_ON_CLOSE) && ARG_A[0].load(AO::SeqCst) == 7, "C09.Layered.on_close_exactly_once_after_collector_closed"); } else { assert!(silent(0), "C09.Layered.no_on_close_while_span_still_open"); } }

#[kani::proof]
#[kani::unwind(22)]
#[kani::stub(core::fmt::Formatter::pad, pad_stub)]
#[kani::stub(sharded_slab::Pool::clear, stub_pool_clear)]
fn c09_layered_collect_drop_span() { let c0 = Cfg::any(); let cc = Cfg::any(); let l = stack(c0, cc); #[allow(deprecated)] l.drop_span(span::Id::from_u64(7)); assert!(only(2, C_TRY_CLOSE), "C09.Layered.drop_span_closes_through_try_close_once"); if cc.close { assert!(only(0, S_ON_CLOSE), "C09.Layered.on_close_exactly_once_after_collector_closed"); } else { assert!(silent(0), "C09.Layered.no_on_close_while_span_still_open"); } }

#[kani::proof]
#[kani::unwind(22)]
#[kani::stub(core::fmt::Formatter::pad, pad_stub)]
#[kani::stub(sharded_slab::Pool::clear, stub_pool_clear)]
fn c09_layered_collect_clone_span() { let c0 = Cfg::any(); let cc = Cfg::any(); let l = stack(c0, cc); let old = span::Id::from_u64(7); let got = l.clone_span(&old); assert!(only(2, C_CLONE_SPAN), "C09.Layered.collector_clone_span_once"); if cc.clone_same { assert!(got == old && silent(0), "C09.Layered.same_id_no_id_change"); } else { assert!(got.into_u64() == cc.new_id && only(0, S_ON_ID_CHANGE) && ARG_A[0].load(AO::SeqCst) == 7 && ARG_B[0].load(AO::SeqCst) == cc.new_id as usize, "C09.Layered.id_change_notified_once_with_old_then_new"); } }

#[kani::proof]
#[kani::unwind(22)]
#[kani::stub(core::fmt::Formatter::pad, pad_stub)]
#[kani::stub(sharded_slab::Pool::clear, stub_pool_clear)]
fn c09_layered_collect_current_span() { let c0 = Cfg::any(); let cc = Cfg::any(); let l = stack(c0, cc); let got = l.current_span(); assert!(only(2, C_CURRENT_SPAN) && silent(0), "C09.Layered.current_span_from_collector"); assert!(got.id().map(|i| i.into_u64()) == Some(cc.new_id), "C09.result_unchanged"); }

#[kani::proof]
#[kani::unwind(22)]
#[kani::stub(core::fmt::Formatter::pad, pad_stub)]
#[kani::stub(sharded_slab::Pool::clear, stub_pool_clear)]
fn c09_layered_collect_register_callsite() { let c0 = Cfg::any(); let cc = Cfg::any(); let l = stack(c0, cc); let _ = l.register_callsite(&META); assert!(only(0, S_REGISTER_CALLSITE), "C09.Layered.layer_asked_exactly_once"); assert!(silent(2) || only(2, C_REGISTER_CALLSITE), "C09.Layered.collector_asked_at_most_once"); assert!(c0.interest == 0 || only(2, C_REGISTER_CALLSITE), "C09.Layered.collector_asked_unless_layer_said_never"); }

#[kani::proof]
#[kani::unwind(22)]
#[kani::stub(core::fmt::Formatter::pad, pad_stub)]
#[kani::stub(sharded_slab::Pool::clear, stub_pool_clear)]
fn c09_layered_collect_max_level_hint() { let c0 = Cfg::any(); let cc = Cfg::any(); let l = stack(c0, cc); let _ = l.max_level_hint(); assert!(CNT[0][S_MAX_LEVEL_HINT].load(AO::SeqCst) == 1 && CNT[2][C_MAX_LEVEL_HINT].load(AO::SeqCst) == 1, "C09.Layered.both_hints_read_exactly_once"); }

#[kani::proof]
#[kani::unwind(22)]
#[kani::stub(core::fmt::Formatter::pad, pad_stub)]
#[kani::stub(sharded_slab::Pool::clear, stub_pool_clear)]
fn c09_layered_collect_downcast_raw() { let c0 = Cfg::any(); let cc = Cfg::any(); let l = stack(c0, cc); let a = unsafe { l.downcast_raw(TypeId::of::<RecS>()) }; let b = unsafe { l.downcast_raw(TypeId::of::<RecC>()) }; let s = unsafe { l.downcast_raw(TypeId::of::<Layered<RecS, RecC>>()) }; assert!(a.is_some() && b.is_some() && s.map(|p| p.as_ptr() as usize) == Some(addr(&l)), "C09.Layered.downcast_reaches_layer_collector_and_self"); }
