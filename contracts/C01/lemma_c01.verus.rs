// ---- C01 lemma layer (pure Verus; hypotheses = the function contracts discharged by Kani on the real code) ----
// code 0 = never, 1 = sometimes, 2 = always.
spec fn code(k: InterestKind) -> int { match k { InterestKind::Never => 0, InterestKind::Sometimes => 1, InterestKind::Always => 2 } }
spec fn and_spec(a: InterestKind, b: InterestKind) -> InterestKind { if a == b { a } else { InterestKind::Sometimes } }

// what `interests.next()` + `interests.fold(first, Interest::and)` computes over the answers of the live registrars
spec fn fold_and(s: Seq<InterestKind>) -> InterestKind
    decreases s.len()
{
    if s.len() == 0 { InterestKind::Never }
    else if s.len() == 1 { s[0] }
    else { and_spec(fold_and(s.drop_last()), s.last()) }
}

// unbounded number of collectors: the fold is `never` only if all said never, `always` only if all said always,
// and otherwise it is the common answer or `sometimes`.
proof fn fold_sound(s: Seq<InterestKind>)
    ensures
        fold_and(s) == InterestKind::Never ==> forall|i: int| 0 <= i < s.len() ==> s[i] == InterestKind::Never,
        fold_and(s) == InterestKind::Always ==> s.len() > 0 && forall|i: int| 0 <= i < s.len() ==> s[i] == InterestKind::Always,
        s.len() > 0 && (forall|i: int| 0 <= i < s.len() ==> #[trigger] s[i] == s[0]) ==> fold_and(s) == s[0],
    decreases s.len()
{
    if s.len() > 1 {
        fold_sound(s.drop_last());
        assert(s.drop_last()[0] == s[0]);
        assert(forall|i: int| 0 <= i < s.len() - 1 ==> s.drop_last()[i] == s[i]);
    }
}

// ---- history model. One callsite c; collectors are ints. `ans(d)` is d's static answer for c (a collector whose
// static answer changes must call rebuild_interest_cache - that is the `rebuild` step with a new ans map).
struct St {
    live: Set<int>,                 // collectors with a live Dispatch
    asked: Seq<int>,                // ghost: the collectors whose answers were folded into the cached byte, in list order
    cache: Option<InterestKind>,    // None = callsite not yet registered (0xFF)
    max_level: int,                 // MAX_LEVEL rank 0..5
}
spec fn answers(asked: Seq<int>, ans: spec_fn(int) -> InterestKind) -> Seq<InterestKind> { asked.map(|i: int, d: int| ans(d)) }
spec fn hint_rank(h: Option<int>) -> int { match h { Some(r) => r, None => 5 } }

// I1: the cache (if any) is the fold over a list that contains every live collector; MAX_LEVEL bounds every live hint.
spec fn inv(s: St, ans: spec_fn(int) -> InterestKind, hint: spec_fn(int) -> Option<int>) -> bool {
    &&& (s.cache is Some ==> s.cache == Some(fold_and(answers(s.asked, ans))) && forall|d: int| s.live.contains(d) ==> s.asked.contains(d))
    &&& forall|d: int| s.live.contains(d) ==> hint_rank(hint(d)) <= s.max_level
}

// contract of rebuild_interest / register_dispatch (Kani: c01_rebuild_interest_bounded + fold lemma): afterwards the cache of
// every REGISTERED callsite is the fold over exactly the live collectors, MAX_LEVEL = max live hint.
spec fn after_rebuild(s: St, s2: St, live_list: Seq<int>, hint: spec_fn(int) -> Option<int>) -> bool {
    &&& s2.live == s.live
    &&& (forall|d: int| s.live.contains(d) <==> live_list.contains(d))
    &&& (s.cache is Some ==> s2.cache is Some)
    &&& (s2.cache is Some ==> s2.asked == live_list)
    &&& (forall|d: int| s.live.contains(d) ==> hint_rank(hint(d)) <= s2.max_level)
}

proof fn step_rebuild_preserves(s: St, s2: St, live_list: Seq<int>, ans: spec_fn(int) -> InterestKind, hint: spec_fn(int) -> Option<int>)
    requires after_rebuild(s, s2, live_list, hint),
             s2.cache is Some ==> s2.cache == Some(fold_and(answers(live_list, ans))),
    ensures inv(s2, ans, hint)
{ }

// new collector d (Dispatch::new -> register_dispatch): live grows, then rebuild. drop: live shrinks, nothing else changes.
proof fn step_drop_preserves(s: St, d: int, ans: spec_fn(int) -> InterestKind, hint: spec_fn(int) -> Option<int>)
    requires inv(s, ans, hint)
    ensures inv(St { live: s.live.remove(d), ..s }, ans, hint)
{ }

// first hit of the callsite (register): cache := fold over the live list (Kani: c01_rebuild_callsite_interest_bounded)
proof fn step_register_preserves(s: St, live_list: Seq<int>, ans: spec_fn(int) -> InterestKind, hint: spec_fn(int) -> Option<int>)
    requires inv(s, ans, hint), s.cache is None, forall|d: int| s.live.contains(d) <==> live_list.contains(d)
    ensures inv(St { cache: Some(fold_and(answers(live_list, ans))), asked: live_list, ..s }, ans, hint)
{ }

// install/uninstall as a thread default, emit, flip a dynamic filter: none of them writes cache / MAX_LEVEL / live.

// ---- the guard lemma: with I1 and a self-consistent current collector, the macro guard
//      level <= MAX_LEVEL && cache != never && (cache == always || cur.enabled())        (Kani: c01_event_guard_*)
// lets an emission through iff the current collector's own filter accepts it.
spec fn accepts(a: InterestKind, dynamic: bool) -> bool { a == InterestKind::Always || (a == InterestKind::Sometimes && dynamic) }

proof fn guard_exact(s: St, cur: int, level: int, dynamic: bool, ans: spec_fn(int) -> InterestKind, hint: spec_fn(int) -> Option<int>)
    requires
        inv(s, ans, hint), s.live.contains(cur), s.cache is Some, 1 <= level <= 5,
        // self-consistency of the current collector (hypothesis of the property)
        ans(cur) == InterestKind::Never ==> !dynamic,
        ans(cur) == InterestKind::Always ==> dynamic,
        accepts(ans(cur), dynamic) ==> level <= hint_rank(hint(cur)),
    ensures ({
        let b = s.cache->Some_0;
        let pass = level <= s.max_level && b != InterestKind::Never && (b == InterestKind::Always || dynamic);
        pass <==> accepts(ans(cur), dynamic)
    })
{
    let sq = answers(s.asked, ans);
    fold_sound(sq);
    assert(s.asked.contains(cur));
    let i = choose|i: int| 0 <= i < s.asked.len() && s.asked[i] == cur;
    assert(sq.len() == s.asked.len());
    assert(sq[i] == ans(cur));
}

// history: inv holds initially (nothing registered, nobody live) and every step preserves it => holds after every finite history.
proof fn init_inv(ans: spec_fn(int) -> InterestKind, hint: spec_fn(int) -> Option<int>)
    ensures inv(St { live: Set::empty(), asked: Seq::empty(), cache: None, max_level: 0 }, ans, hint)
{ }
