// C01 (tracing part) — the real `event!` / `span!` / `enabled!` expansions, the real MacroCallsite,
// the real global registry: delivered <=> the current collector's own filter accepts, whatever another
// collector (created earlier, possibly dropped) left in the caches. First hit and cached hit.
use crate::{collect::Interest, dispatch::Dispatch, span, Collect, Event, Level, Metadata};
use tracing_core::LevelFilter;
use core::sync::atomic::{AtomicUsize, AtomicU8, Ordering as AO};

fn nd<T: kani::Arbitrary>() -> T { kani::any() }
fn pad_stub<'a>(_f: &mut core::fmt::Formatter<'a>, _s: &str) -> core::fmt::Result where 'a: 'a { Ok(()) }
fn filter_of(k: u8) -> LevelFilter {
    match k { 0 => LevelFilter::OFF, 1 => LevelFilter::ERROR, 2 => LevelFilter::WARN, 3 => LevelFilter::INFO, 4 => LevelFilter::DEBUG, _ => LevelFilter::TRACE }
}

// NOTE: all recording state lives inside the collectors (heap), not in statics: Kani 0.68 was observed to alias a
// harness-module static with tracing-core's private MAX_LEVEL when `LevelFilter::current()` is inlined cross-crate.
use std::sync::Arc;
struct St { events: [AtomicUsize; 2], spans: [AtomicUsize; 2], dynamic: AtomicU8 }
fn new_st() -> Arc<St> { Arc::new(St { events: [AtomicUsize::new(0), AtomicUsize::new(0)], spans: [AtomicUsize::new(0), AtomicUsize::new(0)], dynamic: AtomicU8::new(0) }) }

/// An arbitrary self-consistent collector: static answer `ans` (0 never / 1 sometimes / 2 always) for every
/// callsite, optional hint (rank, 6 = none), dynamic verdict read from the shared state (collector 0) or fixed (collector 1).
struct Rec { i: usize, ans: u8, hint: u8, dynamic: bool, s: Arc<St> }
impl Collect for Rec {
    fn register_callsite(&self, _: &'static Metadata<'static>) -> Interest {
        match self.ans { 0 => Interest::never(), 1 => Interest::sometimes(), _ => Interest::always() }
    }
    fn max_level_hint(&self) -> Option<LevelFilter> { if self.hint <= 5 { Some(filter_of(self.hint)) } else { None } }
    fn enabled(&self, _: &Metadata<'_>) -> bool { if self.i == 0 { self.s.dynamic.load(AO::SeqCst) != 0 } else { self.dynamic } }
    fn new_span(&self, _: &span::Attributes<'_>) -> span::Id { self.s.spans[self.i].fetch_add(1, AO::SeqCst); span::Id::from_u64(1) }
    fn record(&self, _: &span::Id, _: &span::Record<'_>) {}
    fn record_follows_from(&self, _: &span::Id, _: &span::Id) {}
    fn event(&self, _: &Event<'_>) { self.s.events[self.i].fetch_add(1, AO::SeqCst); }
    fn enter(&self, _: &span::Id) {}
    fn exit(&self, _: &span::Id) {}
    fn current_span(&self) -> tracing_core::span::Current { tracing_core::span::Current::unknown() }
}

/// what the property's right-hand side says: the collector's own filter accepts the callsite now
fn accepts(ans: u8, dynamic: bool) -> bool { ans == 2 || (ans == 1 && dynamic) }

/// symbolic self-consistent collector 0 for a callsite of rank `lvl`, plus an arbitrary earlier collector 1
fn scenario(lvl: u8, s: &Arc<St>) -> (Dispatch, u8) {
    let ans: u8 = nd(); kani::assume(ans <= 2);
    let hint: u8 = nd(); kani::assume(hint <= 6);
    // self-consistency of collector 0 (hypothesis of the property): the hint is a true upper bound of what it accepts
    kani::assume(hint == 6 || ans == 0 || lvl <= hint);
    // an earlier collector with arbitrary (possibly inconsistent - it is not the current one) summaries
    let oans: u8 = nd(); kani::assume(oans <= 2);
    let ohint: u8 = nd(); kani::assume(ohint <= 6);
    let other_dropped: bool = nd();
    // the earlier collector is created first (its Dispatch::new sees no callsite yet), then the current one
    let other = Dispatch::new(Rec { i: 1, ans: oans, hint: ohint, dynamic: false, s: s.clone() });
    let cur = Dispatch::new(Rec { i: 0, ans, hint, dynamic: false, s: s.clone() });
    if other_dropped { drop(other); } else { core::mem::forget(other); }
    (cur, ans)
}
fn set_dyn(ans: u8, s: &Arc<St>) -> bool {
    let d: bool = nd();
    // self-consistency: 'never' => dynamic check false, 'always' => true
    kani::assume(!(ans == 0 && d)); kani::assume(!(ans == 2 && !d));
    s.dynamic.store(d as u8, AO::SeqCst);
    d
}

macro_rules! event_guard_body {
    ($lvl:expr, $rank:expr) => {{
        fn emit() { crate::event!($lvl, answer = 42u64); }
        let s = new_st();
        let (cur, ans) = scenario($rank, &s);
        crate::dispatch::with_default(&cur, || {
            let d1 = set_dyn(ans, &s);
            emit();                                   // first hit: registers the callsite
            assert!(s.events[0].load(AO::SeqCst) == accepts(ans, d1) as usize, "C01.event.first_hit.delivered_iff_own_filter_accepts");
            let d2 = set_dyn(ans, &s);                // the dynamic filter flips (or not)
            emit();                                   // cached hit
            assert!(s.events[0].load(AO::SeqCst) == accepts(ans, d1) as usize + accepts(ans, d2) as usize, "C01.event.cached_hit.delivered_iff_own_filter_accepts");
        });
        assert!(s.events[1].load(AO::SeqCst) == 0, "C01.event.never_delivered_to_a_non_current_collector");
    }};
}
// TIER: thorough
#[kani::proof]
#[kani::unwind(4)]
#[kani::stub(core::fmt::Formatter::pad, pad_stub)]
fn c01_event_guard_error() { event_guard_body!(Level::ERROR, 1); }
// TIER: thorough
#[kani::proof]
#[kani::unwind(4)]
#[kani::stub(core::fmt::Formatter::pad, pad_stub)]
fn c01_event_guard_warn() { event_guard_body!(Level::WARN, 2); }
// TIER: thorough
#[kani::proof]
#[kani::unwind(4)]
#[kani::stub(core::fmt::Formatter::pad, pad_stub)]
fn c01_event_guard_info() { event_guard_body!(Level::INFO, 3); }
// TIER: thorough
#[kani::proof]
#[kani::unwind(4)]
#[kani::stub(core::fmt::Formatter::pad, pad_stub)]
fn c01_event_guard_debug() { event_guard_body!(Level::DEBUG, 4); }
// TIER: thorough
#[kani::proof]
#[kani::unwind(4)]
#[kani::stub(core::fmt::Formatter::pad, pad_stub)]
fn c01_event_guard_trace() { event_guard_body!(Level::TRACE, 5); }

// TIER: thorough
#[kani::proof]
#[kani::unwind(4)]
#[kani::stub(core::fmt::Formatter::pad, pad_stub)]
fn c01_span_guard_debug() {
    fn mk() -> crate::Span { crate::span!(Level::DEBUG, "s", answer = 42u64) }
    let s = new_st();
    let (cur, ans) = scenario(4, &s);
    crate::dispatch::with_default(&cur, || {
        let d1 = set_dyn(ans, &s);
        let s1 = mk();
        assert!(s.spans[0].load(AO::SeqCst) == accepts(ans, d1) as usize, "C01.span.first_hit.created_iff_own_filter_accepts");
        assert!(s1.is_disabled() == !accepts(ans, d1), "C01.span.first_hit.handle_disabled_iff_rejected");
        let d2 = set_dyn(ans, &s);
        let s2 = mk();
        assert!(s.spans[0].load(AO::SeqCst) == accepts(ans, d1) as usize + accepts(ans, d2) as usize, "C01.span.cached_hit.created_iff_own_filter_accepts");
        core::mem::forget(s1); core::mem::forget(s2);
    });
    assert!(s.spans[1].load(AO::SeqCst) == 0, "C01.span.never_created_on_a_non_current_collector");
}

// TIER: thorough
#[kani::proof]
#[kani::unwind(4)]
#[kani::stub(core::fmt::Formatter::pad, pad_stub)]
fn c01_enabled_probe_warn() {
    fn probe() -> bool { crate::enabled!(Level::WARN) }
    let s = new_st();
    let (cur, ans) = scenario(2, &s);
    crate::dispatch::with_default(&cur, || {
        let d1 = set_dyn(ans, &s);
        assert!(probe() == accepts(ans, d1), "C01.enabled.first_hit.iff_own_filter_accepts");
        let d2 = set_dyn(ans, &s);
        assert!(probe() == accepts(ans, d2), "C01.enabled.cached_hit.iff_own_filter_accepts");
    });
}
