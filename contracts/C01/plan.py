DISPATCH_HELPER = '''
#[cfg(kani)]
impl Dispatch {
    /// verification-only: a `Dispatch` that is NOT registered with the global callsite registry,
    /// so a harness can start from an arbitrary registry state instead of an API-reachable one.
    #[doc(hidden)]
    pub fn __verif_unregistered<C: Collect + Send + Sync + 'static>(c: C) -> Self {
        Dispatch { collector: Kind::Scoped(Arc::new(c)) }
    }
}
'''

REG_HELPER = '''
#[cfg(kani)]
impl Registration {
    /// verification-only: the callsite a registration belongs to (read by the contract stub of `register`)
    #[doc(hidden)]
    pub fn __verif_callsite(&self) -> &'static dyn Callsite { self.callsite }
}
'''

import os
HERE = os.path.dirname(os.path.abspath(__file__))
CO = "tracing-core/src/collect.rs"


def build_interest(ex):
    st = ex.item(CO, r"^pub struct Interest\(InterestKind\);")
    en = ex.item(CO, r"^enum InterestKind \{")
    b_some = ex.fn_body(CO, r"pub fn sometimes\(\) -> Self")
    b_and = ex.fn_body(CO, r"pub\(crate\) fn and\(self, rhs: Interest\) -> Self")
    lemmas = open(os.path.join(HERE, "lemma_c01.verus.rs")).read()
    return ("use vstd::prelude::*;\nverus! {\n" + st + "\n" + en + "\n"
            "impl Interest {\n"
            "    fn sometimes() -> (r: Self)\n        ensures r.0 == InterestKind::Sometimes\n    {" + b_some + "}\n"
            "    fn and(self, rhs: Interest) -> (r: Self)\n        ensures r.0 == and_spec(self.0, rhs.0)\n    {" + b_and + "}\n"
            "}\n" + lemmas + "\n} // verus!\nfn main() {}\n")


PLAN = dict(
    id="C01", api_files=['tracing-core/src/callsite.rs'],
    level="proof",
    explanation="Cache soundness as an inductive invariant I1 (the cached interest of every registered callsite is the Interest::and-fold over a list that contains every live collector; MAX_LEVEL bounds every live collector's hint). Interest::and is extracted from /repo and proved against its spec in Verus; the fold lemma (unbounded number of collectors), preservation of I1 by new/drop/register/rebuild and the guard lemma (with I1 and a self-consistent current collector the macro guard passes iff the collector's own filter accepts) are Verus lemmas whose hypotheses are the function contracts that Kani discharges on the real tracing-core: rebuild_callsite_interest and rebuild_interest from ARBITRARY prior cache bytes / MAX_LEVEL (bounded: 3 registrars, live or dropped, x 2 callsites), LinkedList push/for_each (bounded 3). The real event!/span!/enabled! expansions with the real MacroCallsite and global registry are checked in the thorough tier (first hit and cached hit, symbolic other collector).",
    functions_under_contract=['tracing-core/src/collect.rs: Interest::and, Interest::sometimes (Verus, extracted)', 'tracing-core/src/callsite.rs: rebuild_callsite_interest, rebuild_interest, LinkedList::push, LinkedList::for_each (Kani, in-module)', 'tracing/src/macros.rs event!/span!/enabled! + tracing/src/lib.rs MacroCallsite::{interest,register,is_enabled,set_interest} + callsite::register / register_dispatch (Kani, thorough tier)'],
    trusted_base=["Kani 0.68 / CBMC 6.11 / CaDiCaL; Kani's std build (nightly-2026-08-21), not the repo toolchain's", 'core::fmt::Formatter::pad stubbed to Ok(()) with -Z stubbing (panic-message formatting on infeasible error branches; no harness that uses it reads formatted text)', 'Verus 0.2026.09.13 / Z3; extraction T1/T2/T7 (visibility, derive list, Structural marker on the field-less enum)', 'once_cell::sync::Lazy contract stub; thread_local! shim'],
    assumptions=['Iterator::filter_map / fold apply the closure left to right over the slice (std)', 'interleavings of registration with Dispatch::new are property C04 (not applicable to this technique)', 'a collector whose static answer or hint changes calls rebuild_interest_cache (documented obligation of Collect implementors)'],
    not_covered=['release_max_level_* / max_level_* cargo features (compile-time STATIC_MAX_LEVEL other than TRACE)', 'no_std build of callsite::inner'],
    verus=[dict(name="interest", builder="build_interest", exec_fns=["and", "sometimes"],
                obligations=["and", "sometimes", "fold_sound", "step_rebuild_preserves", "step_drop_preserves", "step_register_preserves", "guard_exact", "init_inv"])],
    kani=[dict(
        crate="tracing-core", tls_shim=True, once_cell_stub=True,
        modules=[dict(name="__verif_c01", attach="inline", file="tracing-core/src/callsite.rs", inside_mod="inner",
                      modpath="callsite::inner", files=["../common/core_prelude.rs", "../common/core_stub.rs", "core_cache.kani.rs"])],
        append=[dict(file="tracing-core/src/dispatch.rs", text=DISPATCH_HELPER, kind="cfg(kani) constructor helper"),
                dict(file="tracing-core/src/callsite.rs", text=REG_HELPER, kind="cfg(kani) accessor helper")],
    ), dict(
        crate="tracing", tls_shim_crates=["tracing-core"], once_cell_stub=True, tag="macros-contracts",
        modules=[dict(name="__verif_c01q", attach="lib", files=["macro_guard_inv.kani.rs"])],
    )],
    manifest=dict(technique='Verus lemmas (fold, invariant preservation, guard exactness) over Kani-discharged contracts of the real registry functions; the real macro expansions verified against those contracts',
        text='The unbounded part (any number of collectors, any finite history, guard exactness) is proved in Verus from function contracts; those contracts are discharged by Kani on the real code from arbitrary prior cache state, with a stated width bound (3 registrars x 2 callsites) that the fold lemma generalises. The real event!/span!/enabled! expansions and MacroCallsite are verified in the quick tier against exactly those contracts (cached interest = fold, published level >= live hints, get_default = current collector) for every state the contracts allow, with a must-fail canary that drops the cache contract. End-to-end runs of the macros through the REAL global registry are not part of the registered checks: even the lightest of them (enabled! probe, two collectors) did not finish in 50 min / 21 GB of CBMC (source kept in contracts/C01/unregistered/).',
        note='Trusted: Kani/CBMC, Verus/Z3, the shims and stubs listed in evidence. Bounded, never counted as proved: registrar-list width 3, callsite-list length 3. Not decided: interleavings (C04), non-default max_level features.',
        design_ref="DESIGN.md section 4, C01"),
)
