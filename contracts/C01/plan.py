DISPATCH_HELPER = '''
#[cfg(kani)]
impl Dispatch {
    /// verification-only: a `Dispatch` that is NOT registered with the global callsite registry,
    /// so a harness can start from an arbitrary registry state instead of an API-reachable one.
    pub(crate) fn __verif_unregistered<C: Collect + Send + Sync + 'static>(c: C) -> Self {
        Dispatch { collector: Kind::Scoped(Arc::new(c)) }
    }
}
'''

import os
HERE = os.path.dirname(os.path.abspath(__file__))
CO = "tracing-core/src/collect.rs"


def build_interest(ex):
    st = ex.item(CO, r"^pub struct Interest\(InterestKind\);")
    en = ex.item(CO, r"^enum InterestKind \{")
    b_some = ex.fn_body(CO, r"pub fn sometimes\(\) -> Self")
    b_and = ex.fn_body(CO, r"pub\(crate\) fn and\(self, rhs: Interest\) -> Self")
    lemmas = open(os.path.join(HERE, "lemma_c01.verus.rs")).read()
    return ("use vstd::prelude::*;\nverus! {\n" + st + "\n" + en + "\n"
            "impl Interest {\n"
            "    fn sometimes() -> (r: Self)\n        ensures r.0 == InterestKind::Sometimes\n    {" + b_some + "}\n"
            "    fn and(self, rhs: Interest) -> (r: Self)\n        ensures r.0 == and_spec(self.0, rhs.0)\n    {" + b_and + "}\n"
            "}\n" + lemmas + "\n} // verus!\nfn main() {}\n")


PLAN = dict(
    id="C01",
    level="proof",
    explanation="(filled below)",
    verus=[dict(name="interest", builder="build_interest", exec_fns=["and", "sometimes"],
                obligations=["and", "sometimes", "fold_sound", "step_rebuild_preserves", "step_drop_preserves", "step_register_preserves", "guard_exact", "init_inv"])],
    kani=[dict(
        crate="tracing-core", tls_shim=True, once_cell_stub=True,
        modules=[dict(name="__verif_c01", attach="inline", file="tracing-core/src/callsite.rs", inside_mod="inner",
                      modpath="callsite::inner", files=["../common/core_prelude.rs", "../common/core_stub.rs", "core_cache.kani.rs"])],
        append=[dict(file="tracing-core/src/dispatch.rs", text=DISPATCH_HELPER, kind="cfg(kani) constructor helper")],
    ), dict(
        crate="tracing", tls_shim_crates=["tracing-core"], once_cell_stub=True, tag="macros",
        modules=[dict(name="__verif_c01", attach="lib", files=["macro_guard.kani.rs"])],
    )],
    manifest=dict(technique="x", text="x", note="x"),
)
