// C01 (tracing part, quick tier) — the real `event!` / `span!` / `enabled!` expansions and the real MacroCallsite,
// composed with the CONTRACTS of tracing-core's global state instead of the state itself:
//   (H1) callsite::register / rebuild_interest leave the callsite's cached interest = fold of the live collectors'
//        answers; with the current collector among them that is its own answer, or `sometimes` when another differs
//        (discharged on the real registry functions in core_cache.kani.rs + lemma fold_sound);
//   (H2) the published maximum level is >= every live collector's hint, no hint counting as TRACE
//        (c01_rebuild_interest_prunes_and_publishes_max_level_bounded);
//   (H3) the current collector is self-consistent (the property's own hypothesis);
//   dispatch::get_default hands the closure the thread's current collector (C02).
// Under (H1)-(H3), for EVERY cached value and published level those contracts allow, before and after a re-evaluation:
// delivered <=> the current collector's own filter accepts.  End-to-end runs through the real registry did not finish
// under CBMC (50 min / 21 GB for the lightest) and are not registered (contracts/C01/unregistered/).
use crate::{collect::Interest, dispatch::Dispatch, span, Collect, Event, Level, Metadata};
use tracing_core::LevelFilter;
use core::sync::atomic::{AtomicUsize, AtomicU8, Ordering as AO};
use std::sync::Arc;

fn nd<T: kani::Arbitrary>() -> T { kani::any() }
fn pad_stub<'a>(_f: &mut core::fmt::Formatter<'a>, _s: &str) -> core::fmt::Result where 'a: 'a { Ok(()) }
fn filter_of(k: u8) -> LevelFilter {
    match k { 0 => LevelFilter::OFF, 1 => LevelFilter::ERROR, 2 => LevelFilter::WARN, 3 => LevelFilter::INFO, 4 => LevelFilter::DEBUG, _ => LevelFilter::TRACE }
}
fn interest_of(k: u8) -> Interest { match k { 0 => Interest::never(), 1 => Interest::sometimes(), _ => Interest::always() } }

vstatic!(CUR_DISPATCH: AtomicUsize = AtomicUsize::new(0));
vstatic!(CUR_MAX: AtomicUsize = AtomicUsize::new(5));
vstatic!(NEXT_CACHED: AtomicUsize = AtomicUsize::new(1));
vstatic!(REGISTER_CALLS: AtomicUsize = AtomicUsize::new(0));
vstatic!(CALLSITE_RAW: [AtomicUsize; 2] = [AtomicUsize::new(0), AtomicUsize::new(0)]);
fn get_default_stub<T, F>(mut f: F) -> T where F: FnMut(&Dispatch) -> T {
    let p = CUR_DISPATCH.load(AO::SeqCst) as *const Dispatch;
    assert!(!p.is_null(), "C01.setup.a_current_collector_is_installed");
    f(unsafe { &*p })
}
fn current_stub() -> LevelFilter { filter_of(CUR_MAX.load(AO::SeqCst) as u8) }
fn register_stub(reg: &'static tracing_core::callsite::Registration) {
    let cs: &'static dyn tracing_core::callsite::Callsite = reg.__verif_callsite();
    let raw: [usize; 2] = unsafe { core::mem::transmute(cs) };
    CALLSITE_RAW[0].store(raw[0], AO::SeqCst); CALLSITE_RAW[1].store(raw[1], AO::SeqCst);
    REGISTER_CALLS.fetch_add(1, AO::SeqCst);
    cs.set_interest(interest_of(NEXT_CACHED.load(AO::SeqCst) as u8));     // (H1)
}
fn reevaluate(c: u8) {
    // what a later Dispatch::new / drop / rebuild_interest_cache does to a REGISTERED callsite (H1 again)
    NEXT_CACHED.store(c as usize, AO::SeqCst);
    if REGISTER_CALLS.load(AO::SeqCst) > 0 {
        let raw = [CALLSITE_RAW[0].load(AO::SeqCst), CALLSITE_RAW[1].load(AO::SeqCst)];
        let cs: &'static dyn tracing_core::callsite::Callsite = unsafe { core::mem::transmute(raw) };
        cs.set_interest(interest_of(c));
    }
}

struct St { events: AtomicUsize, spans: AtomicUsize, dynamic: AtomicU8 }
fn new_st() -> Arc<St> { Arc::new(St { events: AtomicUsize::new(0), spans: AtomicUsize::new(0), dynamic: AtomicU8::new(0) }) }
struct Rec { ans: u8, hint: u8, s: Arc<St> }
impl Collect for Rec {
    fn register_callsite(&self, _: &'static Metadata<'static>) -> Interest { interest_of(self.ans) }
    fn max_level_hint(&self) -> Option<LevelFilter> { if self.hint <= 5 { Some(filter_of(self.hint)) } else { None } }
    fn enabled(&self, _: &Metadata<'_>) -> bool { self.s.dynamic.load(AO::SeqCst) != 0 }
    fn new_span(&self, _: &span::Attributes<'_>) -> span::Id { self.s.spans.fetch_add(1, AO::SeqCst); span::Id::from_u64(1) }
    fn record(&self, _: &span::Id, _: &span::Record<'_>) {}
    fn record_follows_from(&self, _: &span::Id, _: &span::Id) {}
    fn event(&self, _: &Event<'_>) { self.s.events.fetch_add(1, AO::SeqCst); }
    fn enter(&self, _: &span::Id) {}
    fn exit(&self, _: &span::Id) {}
    fn current_span(&self) -> tracing_core::span::Current { tracing_core::span::Current::unknown() }
}
fn accepts(ans: u8, dynamic: bool) -> bool { ans == 2 || (ans == 1 && dynamic) }
fn set_dyn(ans: u8, s: &Arc<St>) -> bool {
    let d: bool = nd();
    kani::assume(!(ans == 0 && d)); kani::assume(!(ans == 2 && !d));       // (H3) never => dynamic false, always => true
    s.dynamic.store(d as u8, AO::SeqCst);
    d
}
/// the current collector for a callsite of rank `lvl` plus a cache/max-level state allowed by (H1),(H2)
fn scenario(lvl: u8, s: &Arc<St>) -> (Dispatch, u8, u8) {
    let ans: u8 = nd(); kani::assume(ans <= 2);
    let hint: u8 = nd(); kani::assume(hint <= 6);
    kani::assume(hint == 6 || ans == 0 || lvl <= hint);                    // (H3) the hint is a true upper bound
    (Dispatch::__verif_unregistered(Rec { ans, hint, s: s.clone() }), ans, hint)
}
fn any_allowed_state(ans: u8, hint: u8) {
    let max: u8 = nd(); kani::assume(max <= 5 && max >= if hint == 6 { 5 } else { hint });   // (H2)
    CUR_MAX.store(max as usize, AO::SeqCst);
    let c: u8 = nd(); kani::assume(c == ans || c == 1);                      // (H1)
    reevaluate(c);
}

macro_rules! event_guard_body {
    ($lvl:expr, $rank:expr) => {{
        fn emit() { crate::event!($lvl, answer = 42u64); }
        let s = new_st();
        let (cur, ans, hint) = scenario($rank, &s);
        CUR_DISPATCH.store(&cur as *const Dispatch as usize, AO::SeqCst);
        any_allowed_state(ans, hint);
        let d1 = set_dyn(ans, &s);
        emit();                                   // first hit: may register the callsite
        assert!(s.events.load(AO::SeqCst) == accepts(ans, d1) as usize, "C01.event.first_hit.delivered_iff_own_filter_accepts");
        any_allowed_state(ans, hint);             // other collectors come and go, caches are re-evaluated
        let d2 = set_dyn(ans, &s);
        emit();                                   // later hit
        assert!(s.events.load(AO::SeqCst) == accepts(ans, d1) as usize + accepts(ans, d2) as usize, "C01.event.later_hit.delivered_iff_own_filter_accepts");
        assert!(REGISTER_CALLS.load(AO::SeqCst) <= 1, "C01.callsite.registered_at_most_once");
        kani::cover!(accepts(ans, d1) && !accepts(ans, d2), "C01.reachable.accepted_then_rejected");
    }};
}
#[kani::proof]
#[kani::unwind(4)]
#[kani::stub(core::fmt::Formatter::pad, pad_stub)]
#[kani::stub(tracing_core::dispatch::get_default, get_default_stub)]
#[kani::stub(tracing_core::metadata::LevelFilter::current, current_stub)]
#[kani::stub(tracing_core::callsite::register, register_stub)]
fn c01_event_guard_error_under_cache_contracts() { event_guard_body!(Level::ERROR, 1); }
#[kani::proof]
#[kani::unwind(4)]
#[kani::stub(core::fmt::Formatter::pad, pad_stub)]
#[kani::stub(tracing_core::dispatch::get_default, get_default_stub)]
#[kani::stub(tracing_core::metadata::LevelFilter::current, current_stub)]
#[kani::stub(tracing_core::callsite::register, register_stub)]
fn c01_event_guard_warn_under_cache_contracts() { event_guard_body!(Level::WARN, 2); }
#[kani::proof]
#[kani::unwind(4)]
#[kani::stub(core::fmt::Formatter::pad, pad_stub)]
#[kani::stub(tracing_core::dispatch::get_default, get_default_stub)]
#[kani::stub(tracing_core::metadata::LevelFilter::current, current_stub)]
#[kani::stub(tracing_core::callsite::register, register_stub)]
fn c01_event_guard_info_under_cache_contracts() { event_guard_body!(Level::INFO, 3); }
#[kani::proof]
#[kani::unwind(4)]
#[kani::stub(core::fmt::Formatter::pad, pad_stub)]
#[kani::stub(tracing_core::dispatch::get_default, get_default_stub)]
#[kani::stub(tracing_core::metadata::LevelFilter::current, current_stub)]
#[kani::stub(tracing_core::callsite::register, register_stub)]
fn c01_event_guard_debug_under_cache_contracts() { event_guard_body!(Level::DEBUG, 4); }
#[kani::proof]
#[kani::unwind(4)]
#[kani::stub(core::fmt::Formatter::pad, pad_stub)]
#[kani::stub(tracing_core::dispatch::get_default, get_default_stub)]
#[kani::stub(tracing_core::metadata::LevelFilter::current, current_stub)]
#[kani::stub(tracing_core::callsite::register, register_stub)]
fn c01_event_guard_trace_under_cache_contracts() { event_guard_body!(Level::TRACE, 5); }

#[kani::proof]
#[kani::unwind(4)]
#[kani::stub(core::fmt::Formatter::pad, pad_stub)]
#[kani::stub(tracing_core::dispatch::get_default, get_default_stub)]
#[kani::stub(tracing_core::metadata::LevelFilter::current, current_stub)]
#[kani::stub(tracing_core::callsite::register, register_stub)]
fn c01_span_guard_debug_under_cache_contracts() {
    fn mk() -> crate::Span { crate::span!(Level::DEBUG, "s", answer = 42u64) }
    let s = new_st();
    let (cur, ans, hint) = scenario(4, &s);
    CUR_DISPATCH.store(&cur as *const Dispatch as usize, AO::SeqCst);
    any_allowed_state(ans, hint);
    let d1 = set_dyn(ans, &s);
    let s1 = mk();
    assert!(s.spans.load(AO::SeqCst) == accepts(ans, d1) as usize, "C01.span.first_hit.created_iff_own_filter_accepts");
    assert!(s1.is_disabled() == !accepts(ans, d1), "C01.span.first_hit.handle_disabled_iff_rejected");
    any_allowed_state(ans, hint);
    let d2 = set_dyn(ans, &s);
    let s2 = mk();
    assert!(s.spans.load(AO::SeqCst) == accepts(ans, d1) as usize + accepts(ans, d2) as usize, "C01.span.later_hit.created_iff_own_filter_accepts");
    core::mem::forget(s1); core::mem::forget(s2);
}

#[kani::proof]
#[kani::unwind(4)]
#[kani::stub(core::fmt::Formatter::pad, pad_stub)]
#[kani::stub(tracing_core::dispatch::get_default, get_default_stub)]
#[kani::stub(tracing_core::metadata::LevelFilter::current, current_stub)]
#[kani::stub(tracing_core::callsite::register, register_stub)]
fn c01_enabled_probe_warn_under_cache_contracts() {
    fn probe() -> bool { crate::enabled!(Level::WARN) }
    let s = new_st();
    let (cur, ans, hint) = scenario(2, &s);
    CUR_DISPATCH.store(&cur as *const Dispatch as usize, AO::SeqCst);
    any_allowed_state(ans, hint);
    let d1 = set_dyn(ans, &s);
    assert!(probe() == accepts(ans, d1), "C01.enabled.first_hit.iff_own_filter_accepts");
    any_allowed_state(ans, hint);
    let d2 = set_dyn(ans, &s);
    assert!(probe() == accepts(ans, d2), "C01.enabled.later_hit.iff_own_filter_accepts");
}

// must-fail canary (vacuity guard, run every time): without (H1) - an arbitrary cached interest - the same obligation
// has to FAIL, i.e. the hypotheses above are what carries the proof and the assertions are reachable
#[kani::proof]
#[kani::unwind(4)]
#[kani::stub(core::fmt::Formatter::pad, pad_stub)]
#[kani::stub(tracing_core::dispatch::get_default, get_default_stub)]
#[kani::stub(tracing_core::metadata::LevelFilter::current, current_stub)]
#[kani::stub(tracing_core::callsite::register, register_stub)]
fn c01_event_guard_info_without_cache_contract_canary() {
    fn emit() { crate::event!(Level::INFO, answer = 42u64); }
    let s = new_st();
    let (cur, ans, hint) = scenario(3, &s);
    CUR_DISPATCH.store(&cur as *const Dispatch as usize, AO::SeqCst);
    CUR_MAX.store(5, AO::SeqCst);
    let c: u8 = nd(); kani::assume(c <= 2);          // NOT (H1)
    reevaluate(c);
    let d1 = set_dyn(ans, &s);
    emit();
    assert!(s.events.load(AO::SeqCst) == accepts(ans, d1) as usize, "C01.canary.delivered_iff_own_filter_accepts_WITHOUT_H1");
}

// every PREFIX form of event! (name: / target: / parent: - each a separate hand-written arm with its own copy of the guard)
#[kani::proof]
#[kani::unwind(4)]
#[kani::stub(core::fmt::Formatter::pad, pad_stub)]
#[kani::stub(tracing_core::dispatch::get_default, get_default_stub)]
#[kani::stub(tracing_core::metadata::LevelFilter::current, current_stub)]
#[kani::stub(tracing_core::callsite::register, register_stub)]
fn c01_event_guard_prefix_forms_under_cache_contracts() {
    let s = new_st();
    let (cur, ans, hint) = scenario(3, &s);
    CUR_DISPATCH.store(&cur as *const Dispatch as usize, AO::SeqCst);
    any_allowed_state(ans, hint);
    let d1 = set_dyn(ans, &s);
    let form: u8 = nd(); kani::assume(form < 8);
    match form {
        0 => crate::event!(Level::INFO, answer = 42u64),
        1 => crate::event!(target: "t", Level::INFO, answer = 42u64),
        2 => crate::event!(name: "n", Level::INFO, answer = 42u64),
        3 => crate::event!(parent: None, Level::INFO, answer = 42u64),
        4 => crate::event!(name: "n", target: "t", Level::INFO, answer = 42u64),
        5 => crate::event!(target: "t", parent: None, Level::INFO, answer = 42u64),
        6 => crate::event!(name: "n", parent: None, Level::INFO, answer = 42u64),
        _ => crate::event!(name: "n", target: "t", parent: None, Level::INFO, answer = 42u64),
    }
    assert!(s.events.load(AO::SeqCst) == accepts(ans, d1) as usize, "C01.event.prefix_forms.delivered_iff_own_filter_accepts");
    kani::cover!(form == 5 && !accepts(ans, d1), "C01.reachable.target_parent_form_rejected");
}
