// C01 (tracing-core part) — the interest cache and MAX_LEVEL are exactly the fold of the live collectors' answers.
// Appended inside `callsite::inner`, so the private `rebuild_callsite_interest` / `rebuild_interest` / `REGISTRY`
// are the real ones.
use vstub::{Stub, ASKED, CS0, CS1, HINTED};
use core::sync::atomic::Ordering as AO;

/// spec: fold of `Interest::and` over a finite sequence = N if empty; x if all equal x; else S  (order-independent;
/// the unbounded statement is lemma `fold_sound` in contracts/C01/lemma_c01.verus.rs)
fn spec_fold(ans: &[u8; 3], live: &[bool; 3]) -> u8 {
    let mut first: Option<u8> = None;
    let mut mixed = false;
    let mut i = 0;
    while i < 3 { if live[i] { match first { None => first = Some(ans[i]), Some(f) => if f != ans[i] { mixed = true } } } i += 1; }
    match first { None => 0, Some(f) => if mixed { 1 } else { f } }
}

#[kani::proof]
fn c01_interest_and_contract() {
    let (a, ka) = any_interest(); let (b, kb) = any_interest();
    let r = interest_code(&a.and(b));
    assert!(r == if ka == kb { ka } else { 1 }, "C01.Interest.and.agree_or_sometimes");
}

macro_rules! build3 {
    ($ans:expr, $hints:expr, $live:expr => $d0:ident $d1:ident $d2:ident) => {
        let $d0 = Dispatch::__verif_unregistered(Stub { i: 0, answer: $ans[0], hint: $hints[0] });
        let $d1 = Dispatch::__verif_unregistered(Stub { i: 1, answer: $ans[1], hint: $hints[1] });
        let $d2 = Dispatch::__verif_unregistered(Stub { i: 2, answer: $ans[2], hint: $hints[2] });
    };
}
fn any_answers() -> [[u8; 2]; 3] {
    let a: [[u8; 2]; 3] = nd();
    let mut i = 0;
    while i < 3 { kani::assume(a[i][0] <= 2 && a[i][1] <= 2); i += 1; }
    a
}
fn any_hints() -> ([Option<LevelFilter>; 3], [u8; 3]) {
    // rank 0..=5, 6 = no hint
    let k: [u8; 3] = nd();
    let mut h = [None, None, None];
    let mut i = 0;
    while i < 3 { kani::assume(k[i] <= 6); if k[i] <= 5 { h[i] = Some(filter_of(k[i])); } i += 1; }
    (h, k)
}

// BOUND: 3 registrars (each live or dropped, symbolic answers); the unbounded step is the Verus fold lemma
#[kani::proof]
#[kani::unwind(5)]
#[kani::stub(core::fmt::Formatter::pad, pad_stub)]
fn c01_rebuild_callsite_interest_bounded() {
    let ans = any_answers(); let live: [bool; 3] = nd();
    let prior: u8 = nd();
    CS0.seen.store(prior, AO::SeqCst);          // arbitrary stale cache entry left by an earlier history
    build3!(ans, [None, None, None], live => d0 d1 d2);
    let regs = [d0.registrar(), d1.registrar(), d2.registrar()];
    // a dropped collector: its only strong handle goes away, the registrar stays in the list
    if !live[0] { drop(d0); }
    if !live[1] { drop(d1); }
    if !live[2] { drop(d2); }
    rebuild_callsite_interest(&regs, &CS0);
    let want = spec_fold(&[ans[0][0], ans[1][0], ans[2][0]], &live);
    assert!(CS0.seen.load(AO::SeqCst) == want, "C01.rebuild_callsite_interest.cache_is_fold_of_live_answers");
    assert!(CS0.sets.load(AO::SeqCst) == 1, "C01.rebuild_callsite_interest.set_exactly_once");
    assert!(ASKED[0][0].load(AO::SeqCst) == live[0] as usize, "C01.rebuild_callsite_interest.collector0_asked_once_iff_live");
    assert!(ASKED[1][0].load(AO::SeqCst) == live[1] as usize, "C01.rebuild_callsite_interest.collector1_asked_once_iff_live");
    assert!(ASKED[2][0].load(AO::SeqCst) == live[2] as usize, "C01.rebuild_callsite_interest.collector2_asked_once_iff_live");
}

// rebuild_interest's OWN work besides the per-callsite fold (which c01_rebuild_callsite_interest_bounded covers): pruning
// of dead registrars and the published maximum level.  Empty callsite list, so the cost of the fold is not paid here.
// BOUND: 2 registrars, each live or dropped, each with any hint or none
#[kani::proof]
#[kani::unwind(4)]
#[kani::stub(core::fmt::Formatter::pad, pad_stub)]
fn c01_rebuild_interest_prunes_and_publishes_max_level_bounded() {
    let live: [bool; 2] = nd(); let (hints, hk) = any_hints();
    let list: Callsites = LinkedList::new();
    let d0 = Dispatch::__verif_unregistered(Stub { i: 0, answer: [1, 1], hint: hints[0] });
    let d1 = Dispatch::__verif_unregistered(Stub { i: 1, answer: [1, 1], hint: hints[1] });
    let mut regs = Vec::with_capacity(2);
    regs.push(d0.registrar()); regs.push(d1.registrar());
    if !live[0] { drop(d0); }
    if !live[1] { drop(d1); }
    rebuild_interest(&list, &mut regs);
    assert!(regs.len() == live[0] as usize + live[1] as usize, "C01.rebuild_interest.dead_registrars_removed_live_kept");
    // MAX_LEVEL = max over LIVE collectors of hint.unwrap_or(TRACE) - a collector without a hint may enable everything -
    // and OFF when nobody is live
    let mut want = 0u8; let mut i = 0;
    while i < 2 { if live[i] { let h = if hk[i] == 6 { 5 } else { hk[i] }; if h > want { want = h; } } i += 1; }
    assert!(LevelFilter::current() == filter_of(want), "C01.rebuild_interest.max_level_is_max_of_live_hints_none_counts_as_TRACE");
}

// rebuild_interest re-evaluates EVERY registered callsite, whatever the previously published maximum level and whatever
// stale byte the callsite holds (the 2 x 2 version with dropped registrars is the thorough tier's c01_rebuild_interest_bounded)
// BOUND: 1 live registrar x 1 callsite, arbitrary prior cache byte and prior MAX_LEVEL
#[kani::proof]
#[kani::unwind(4)]
#[kani::stub(core::fmt::Formatter::pad, pad_stub)]
fn c01_rebuild_interest_reevaluates_the_callsite_whatever_the_old_max_level_bounded() {
    let a: u8 = nd(); kani::assume(a <= 2);
    let (hints, hk) = any_hints();
    let p0: u8 = nd(); CS0.seen.store(p0, AO::SeqCst);
    let (prior_max, _) = any_filter();
    LevelFilter::set_max(prior_max);
    static R0: Registration = Registration::new(&CS0);
    let list: Callsites = LinkedList::new();
    list.push(&R0);
    let d0 = Dispatch::__verif_unregistered(Stub { i: 0, answer: [a, a], hint: hints[0] });
    let mut regs = Vec::with_capacity(1);
    regs.push(d0.registrar());
    rebuild_interest(&list, &mut regs);
    assert!(CS0.seen.load(AO::SeqCst) == a, "C01.rebuild_interest.every_callsite_is_re_evaluated_whatever_the_old_max_level_was");
    let want = if hk[0] == 6 { 5 } else { hk[0] };
    assert!(LevelFilter::current() == filter_of(want), "C01.rebuild_interest.max_level_is_the_live_collectors_hint_or_TRACE");
    core::mem::forget(d0);
}

// TIER: thorough
// NOTE: 775 s / 17 GB measured; the quick tier relies on c01_rebuild_callsite_interest_bounded + the Verus lemmas
// BOUND: 2 registrars (each live or dropped) x 2 callsites, arbitrary prior cache bytes and prior MAX_LEVEL
#[kani::proof]
#[kani::unwind(4)]
#[kani::stub(core::fmt::Formatter::pad, pad_stub)]
fn c01_rebuild_interest_bounded() {
    let ans = any_answers(); let live: [bool; 2] = nd(); let (hints, hk) = any_hints();
    let p0: u8 = nd(); let p1: u8 = nd();
    CS0.seen.store(p0, AO::SeqCst); CS1.seen.store(p1, AO::SeqCst);
    let (prior_max, _) = any_filter();
    LevelFilter::set_max(prior_max);
    static R0: Registration = Registration::new(&CS0);
    static R1: Registration = Registration::new(&CS1);
    let list: Callsites = LinkedList::new();
    list.push(&R0); list.push(&R1);
    let d0 = Dispatch::__verif_unregistered(Stub { i: 0, answer: ans[0], hint: hints[0] });
    let d1 = Dispatch::__verif_unregistered(Stub { i: 1, answer: ans[1], hint: hints[1] });
    let mut regs = Vec::with_capacity(2);
    regs.push(d0.registrar()); regs.push(d1.registrar());
    if !live[0] { drop(d0); }
    if !live[1] { drop(d1); }
    rebuild_interest(&list, &mut regs);
    let live3 = [live[0], live[1], false];
    // dead registrars are pruned, live ones kept
    assert!(regs.len() == live[0] as usize + live[1] as usize, "C01.rebuild_interest.dead_registrars_removed_live_kept");
    // every callsite in the list is re-evaluated against exactly the live collectors
    assert!(CS0.seen.load(AO::SeqCst) == spec_fold(&[ans[0][0], ans[1][0], 0], &live3), "C01.rebuild_interest.callsite0_is_fold");
    assert!(CS1.seen.load(AO::SeqCst) == spec_fold(&[ans[0][1], ans[1][1], 0], &live3), "C01.rebuild_interest.callsite1_is_fold");
    // MAX_LEVEL = max over live of hint.unwrap_or(TRACE); OFF when nobody is live
    let mut want = 0u8; let mut i = 0;
    while i < 2 { if live[i] { let h = if hk[i] == 6 { 5 } else { hk[i] }; if h > want { want = h; } } i += 1; }
    assert!(LevelFilter::current() == filter_of(want), "C01.rebuild_interest.max_level_is_max_of_live_hints");
}

// BOUND: list of up to 3 registrations
#[kani::proof]
#[kani::unwind(6)]
fn c01_linked_list_visits_each_once_bounded() {
    struct Dummy;
    impl Callsite for Dummy { fn set_interest(&self, _: Interest) {} fn metadata(&self) -> &Metadata<'_> { &vstub::META0 } }
    static D: Dummy = Dummy;
    static RA: Registration = Registration::new(&D);
    static RB: Registration = Registration::new(&D);
    static RC: Registration = Registration::new(&D);
    let n: u8 = nd(); kani::assume(n <= 3);
    let list: Callsites = LinkedList::new();
    if n >= 1 { list.push(&RA); } if n >= 2 { list.push(&RB); } if n >= 3 { list.push(&RC); }
    let (mut ca, mut cb, mut cc, mut other) = (0u8, 0u8, 0u8, 0u8);
    list.for_each(|r| {
        if core::ptr::eq(r, &RA) { ca += 1 } else if core::ptr::eq(r, &RB) { cb += 1 } else if core::ptr::eq(r, &RC) { cc += 1 } else { other += 1 }
    });
    assert!(ca == (n >= 1) as u8 && cb == (n >= 2) as u8 && cc == (n >= 3) as u8 && other == 0, "C01.LinkedList.for_each_visits_each_pushed_registration_exactly_once");
}
