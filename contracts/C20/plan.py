import os

HERE = os.path.dirname(os.path.abspath(__file__))
DT = "tracing-subscriber/src/fmt/time/datetime.rs"

ENSURES = """
    ensures
        valid_date(r.year as int, r.month as int, r.day as int),
        r.hour < 24, r.minute < 60, r.second < 60, r.nanos == nanos,
        unix_day(r.year as int, r.month as int, r.day as int) * 86400 + r.hour * 3600 + r.minute * 60 + r.second == t,
"""

GHOST = [
    ("if remsecs < 0i32 { remsecs += 86_400; days -= 1 }", """
        let ghost dd: int = days as int + 11017;   // floor(t / 86400)
        assert(LEAPOCH / 86_400 == 11017);
        assert(0 <= remsecs < 86_400);
        assert(dd * 86400 + remsecs == t);
"""),
    ("if remdays < 0 { remdays += DAYS_PER_400Y; qc_cycles -= 1; }", """
        assert(0 <= remdays < 146097);
        assert(days == qc_cycles as int * 146097 + remdays);
        assert(-1_000_000_000 < qc_cycles < 1_000_000_000);
        let ghost rd0 = remdays as int;
"""),
    ("remdays -= c_cycles * DAYS_PER_100Y;", """
        assert(0 <= c_cycles <= 3);
        assert(rd0 == c_cycles * 36524 + remdays);
        assert(0 <= remdays <= 36524);
        assert(c_cycles < 3 ==> remdays < 36524);
        let ghost rd1 = remdays as int;
"""),
    ("remdays -= q_cycles * DAYS_PER_4Y;", """
        assert(0 <= q_cycles <= 24);
        assert(rd1 == q_cycles * 1461 + remdays);
        assert(0 <= remdays <= 1460);
        assert(q_cycles < 24 ==> remdays < 1461);
        assert(q_cycles == 24 && c_cycles < 3 ==> remdays < 1460);
        let ghost rd2 = remdays as int;
"""),
    ("remdays -= remyears * 365;", """
        assert(0 <= remyears <= 3);
        assert(rd2 == remyears * 365 + remdays);
        assert(0 <= remdays <= 365);
        assert(remyears < 3 ==> remdays < 365);
"""),
    ("let mut months: i32 = 0;", """
        let ghost remdays0 = remdays as int;
        let ghost (gqc, gc, gq, gry) = (qc_cycles as int, c_cycles as int, q_cycles as int, remyears as int);
"""),
    ("remdays -= i32::from(DAYS_IN_MONTH[months as usize]); months += 1 }", """
        proof {
            assert(remdays < mlen(months as int));
            lemma_calendar(dd, gqc, gc, gq, gry, remdays0, months as int, remdays as int);
        }
"""),
]
LOOP1 = """
            invariant
                0 <= months < 12, 0 <= remdays, remdays0 <= 365,
                remdays0 == mcum(months as int) + remdays,
            decreases 12 - months
"""


def build_civil(ex):
    struct = ex.item(DT, r"^pub\(crate\) struct DateTime\b")
    body = ex.fn_body(DT, r"fn from\(timestamp: std::time::SystemTime\) -> DateTime", within=r"impl From<std::time::SystemTime> for DateTime")
    _prefix, suffix = ex.split_after(body, "let (t, nanos) = match timestamp.duration_since(std::time::UNIX_EPOCH)")
    consts, suffix = ex.hoist_items(suffix)
    for anchor, ghost in GHOST:
        suffix = ex.insert_after(suffix, anchor, ghost)
    suffix = ex.annotate_loop(suffix, 1, LOOP1)
    if ex.n_loops(suffix) != 1:
        from vlib.overlay import AnchorLost
        raise AnchorLost("expected exactly one loop in the calendar body, found %d" % ex.n_loops(suffix))
    spec = open(os.path.join(HERE, "civil_spec.verus.rs")).read()
    return ("use vstd::prelude::*;\nverus! {\n" + struct + "\n" + spec + "\n" + consts + "\n"
            + "fn civil_from_secs(t: i64, nanos: u32) -> (r: DateTime)" + ENSURES + "{\n" + suffix + "\n}\n"
            + "} // verus!\nfn main() {}\n")


def gen_prelude(repo):
    from vlib import extract
    ex = extract.Extractor(repo)
    body = ex.fn_body(DT, r"fn from\(timestamp: std::time::SystemTime\) -> DateTime", within=r"impl From<std::time::SystemTime> for DateTime")
    prefix, _ = ex.split_after(body, "let (t, nanos) = match timestamp.duration_since(std::time::UNIX_EPOCH)")
    return ("\n// ---- mechanically extracted from " + DT + " (T4 prefix) ----\n"
            "fn __extracted_prelude(timestamp: std::time::SystemTime) -> (i64, u32) {\n" + prefix + "\n    (t, nanos)\n}\n"
            )


PLAN = dict(
    id="C20", api_files=['tracing-subscriber/src/fmt/time/datetime.rs'],
    level="proof",
    explanation=(
        "The calendar body of `impl From<SystemTime> for DateTime` (everything after the `let (t, nanos) = match ..;` statement) is "
        "extracted mechanically from /repo on every run (transformations T1-T6, logged), given the postcondition "
        "`valid_date(y,m,d) && h<24 && mi<60 && s<60 && unix_day(y,m,d)*86400 + h*3600 + mi*60 + s == t` where unix_day is the textbook "
        "Rata-Die day count, and proved by Verus for every i64 second count (no bound), including absence of overflow, in-range casts, "
        "in-bounds indexing and termination of the month loop. Lemmas prove unix_day strictly monotone on valid dates, hence the decomposition is "
        "unique and successive instants print in non-decreasing order. The SystemTime -> (secs, nanos) prelude is a Kani obligation on the statement extracted from the real function; the Display layout is checked at 7 concrete dates on the year sign / width boundaries (bounded; a symbolic Display does not finish). That `nanos / 1000` truncates is lemma_micros_truncate; that Display prints exactly that expression is not decided."),
    verus=[dict(name="civil", builder="build_civil", rlimit=200,
                obligations=["civil_from_secs", "lemma_calendar", "lemma_years", "lemma_leaps_shift", "lemma_leaps_step", "sanity",
                             "lemma_unix_day_strictly_monotone", "lemma_order_preserving", "lemma_year_mono", "lemma_year_step",
                             "lemma_doy_bounds", "lemma_doy_mono", "lemma_micros_truncate"],
                paired=["c20_boundary_instants_bounded"], exec_fns=["civil_from_secs"])],
    kani=[dict(
        crate="tracing-subscriber", tls_shim=True, tls_shim_crates=["tracing-core", "tracing-subscriber"], once_cell_stub=True,
        modules=[dict(name="__verif_c20", attach="inline", file=DT, modpath="fmt::time::datetime", files=["datetime.kani.rs"], generator="gen_prelude")],
    )],
    functions_under_contract=[
        DT + ": impl From<std::time::SystemTime> for DateTime (calendar body as civil_from_secs, Verus; prelude + whole function, Kani)",
        DT + ": impl Display for DateTime",
    ],
    trusted_base=[
        "Verus 0.2026.09.13 / Z3; vstd specs for i64/i32 `/`, `%`, `i64::from`, array indexing",
        "extraction T1-T6 (lib/vlib/extract.py): visibility/derive erasure, hoisting of the fn-local const/static items (static->const), split after the prelude statement, ghost insertions",
    ],
    assumptions=[
        "exec signed `/` and `%` are truncating in Verus's model (checked against Rust semantics by a unit in the thorough tier)",
        "SystemTime::now() (the clock) and core::fmt padding are outside the proof",
    ],
    not_covered=["the excluded instant tv_sec = i64::MIN with nsec = 0 (debug_assert fires)"],
    manifest=dict(
        technique="Verus postcondition on the mechanically extracted calendar function against a Rata-Die spec, all i64; Kani for the std-typed prelude",
        text=("Proof: for every i64 second count the date/time fields the real calendar code computes satisfy the proleptic-Gregorian spec "
              "(Verus, unbounded), the decomposition is unique and order-preserving (lemmas), micros = nanos/1000 truncates. The std-typed prelude "
              "is a Kani obligation (complete over all Durations, loop-free)."),
        note=("Trusted: Verus/Z3 and vstd integer specs; the logged extraction T1-T6; Kani/CBMC for the prelude. Not decided: the clock itself, "
              "core::fmt's padding implementation (Display layout assumed), the single excluded instant tv_sec=i64::MIN."),
        design_ref="DESIGN.md section 4, C20"),
)
