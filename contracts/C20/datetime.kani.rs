// C20 — Kani obligations on the real `DateTime` code of tracing-subscriber (module appended to datetime.rs).
// `__extracted_prelude` (generated below by the plan, mechanically, on every run) is the statement
// `let (t, nanos) = match timestamp.duration_since(UNIX_EPOCH) {..};` of `impl From<SystemTime> for DateTime`,
// i.e. exactly the prefix that the Verus unit `civil` drops (T4 split).
use std::time::{Duration, SystemTime, UNIX_EPOCH};

fn nd<T: kani::Arbitrary>() -> T { kani::any() }

// Prelude for EVERY representable instant (precondition: secs < i64::MAX, nanos < 1e9):
// (t, nanos) is the floor-seconds / sub-second split of the signed instant, 0 <= nanos < 1e9,
// i.e. t * 1e9 + nanos == signed nanoseconds since the epoch.
#[kani::proof]
fn c20_prelude_floor_split() {
    let before: bool = nd(); let secs: u64 = nd(); let nanos: u32 = nd();
    kani::assume(nanos < 1_000_000_000);
    kani::assume(secs < i64::MAX as u64);
    let d = Duration::new(secs, nanos);
    let st = if before { UNIX_EPOCH.checked_sub(d) } else { UNIX_EPOCH.checked_add(d) };
    if let Some(st) = st {
        kani::cover!(before && nanos != 0, "C20.reachable.before_epoch_fractional");
        kani::cover!(!before, "C20.reachable.after_epoch");
        let (t, sub) = __extracted_prelude(st);
        assert!(sub < 1_000_000_000, "C20.prelude.subsecond_in_range");
        // floor split of the signed instant: +(secs + nanos/1e9) = secs + nanos/1e9 ;
        // -(secs + nanos/1e9) = -secs (nanos = 0) or (-secs - 1) + (1e9 - nanos)/1e9
        let (want_t, want_sub) = if !before { (secs as i64, nanos) }
            else if nanos == 0 { (-(secs as i64), 0) }
            else { (-(secs as i64) - 1, 1_000_000_000 - nanos) };
        assert!(t == want_t, "C20.prelude.floor_seconds");
        assert!(sub == want_sub, "C20.prelude.subsecond_part");
    }
}

// Display layout: `YYYY-MM-DDTHH:MM:SS.ffffffZ`, ffffff = nanos / 1000 (truncated), zero padded, 27 bytes
struct Buf { b: [u8; 40], n: usize }
impl core::fmt::Write for Buf {
    fn write_str(&mut self, s: &str) -> core::fmt::Result {
        let bs = s.as_bytes();
        let mut i = 0;
        while i < bs.len() { if self.n >= 40 { return Err(core::fmt::Error); } self.b[self.n] = bs[i]; self.n += 1; i += 1; }
        Ok(())
    }
}
fn digits(b: &[u8], from: usize, len: usize) -> Option<u64> {
    let mut v: u64 = 0; let mut i = 0;
    while i < len { let c = b[from + i]; if c < b'0' || c > b'9' { return None; } v = v * 10 + (c - b'0') as u64; i += 1; }
    Some(v)
}
// TIER: thorough
// BOUND: years 0..=9999 (the 4-digit RFC 3339 range), every valid month/day/time field, every nanos value
#[kani::proof]
#[kani::unwind(42)]
fn c20_display_layout_bounded() {
    use core::fmt::Write;
    let dt = DateTime { year: nd(), month: nd(), day: nd(), hour: nd(), minute: nd(), second: nd(), nanos: nd() };
    kani::assume(dt.year >= 0 && dt.year <= 9999);
    kani::assume(dt.month >= 1 && dt.month <= 12 && dt.day >= 1 && dt.day <= 31);
    kani::assume(dt.hour < 24 && dt.minute < 60 && dt.second < 60 && dt.nanos < 1_000_000_000);
    let mut w = Buf { b: [0; 40], n: 0 };
    write!(w, "{}", dt).unwrap();
    assert!(w.n == 27, "C20.display.length_27");
    let b = &w.b;
    assert!(b[4] == b'-' && b[7] == b'-' && b[10] == b'T' && b[13] == b':' && b[16] == b':' && b[19] == b'.' && b[26] == b'Z', "C20.display.punctuation");
    assert!(digits(b, 0, 4) == Some(dt.year as u64), "C20.display.year");
    assert!(digits(b, 5, 2) == Some(dt.month as u64), "C20.display.month");
    assert!(digits(b, 8, 2) == Some(dt.day as u64), "C20.display.day");
    assert!(digits(b, 11, 2) == Some(dt.hour as u64), "C20.display.hour");
    assert!(digits(b, 14, 2) == Some(dt.minute as u64), "C20.display.minute");
    assert!(digits(b, 17, 2) == Some(dt.second as u64), "C20.display.second");
    assert!(digits(b, 20, 6) == Some((dt.nanos / 1000) as u64), "C20.display.micros_truncated");
}
