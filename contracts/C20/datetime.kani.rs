// C20 — Kani obligations on the real `DateTime` code of tracing-subscriber (module appended to datetime.rs).
// `__extracted_prelude` (generated below by the plan, mechanically, on every run) is the statement
// `let (t, nanos) = match timestamp.duration_since(UNIX_EPOCH) {..};` of `impl From<SystemTime> for DateTime`,
// i.e. exactly the prefix that the Verus unit `civil` drops (T4 split).
use std::time::{Duration, SystemTime, UNIX_EPOCH};

fn nd<T: kani::Arbitrary>() -> T { kani::any() }

// Prelude for EVERY representable instant (precondition: secs < i64::MAX, nanos < 1e9):
// (t, nanos) is the floor-seconds / sub-second split of the signed instant, 0 <= nanos < 1e9,
// i.e. t * 1e9 + nanos == signed nanoseconds since the epoch.
// NOTE: unwind(3) bounds the one-level recursion of std's Timespec::sub_timespec (unwinding assertion on)
#[kani::proof]
#[kani::unwind(3)]
fn c20_prelude_floor_split() {
    let before: bool = nd(); let secs: u64 = nd(); let nanos: u32 = nd();
    kani::assume(nanos < 1_000_000_000);
    kani::assume(secs < i64::MAX as u64);
    let d = Duration::new(secs, nanos);
    let st = if before { UNIX_EPOCH.checked_sub(d) } else { UNIX_EPOCH.checked_add(d) };
    if let Some(st) = st {
        kani::cover!(before && nanos != 0, "C20.reachable.before_epoch_fractional");
        kani::cover!(!before, "C20.reachable.after_epoch");
        let (t, sub) = __extracted_prelude(st);
        assert!(sub < 1_000_000_000, "C20.prelude.subsecond_in_range");
        // floor split of the signed instant: +(secs + nanos/1e9) = secs + nanos/1e9 ;
        // -(secs + nanos/1e9) = -secs (nanos = 0) or (-secs - 1) + (1e9 - nanos)/1e9
        let (want_t, want_sub) = if !before { (secs as i64, nanos) }
            else if nanos == 0 { (-(secs as i64), 0) }
            else { (-(secs as i64) - 1, 1_000_000_000 - nanos) };
        assert!(t == want_t, "C20.prelude.floor_seconds");
        assert!(sub == want_sub, "C20.prelude.subsecond_part");
    }
}


// Measured and dropped (DESIGN.md section 7): whole-function harnesses over `DateTime::from` (time of day for every
// instant; Rata-Die equality on a +-2^32 s window) and a SYMBOLIC `Display` harness each exceed 20 min in CBMC
// (64-bit div/mod chains; core::fmt). The calendar body is proved by Verus instead; Display padding is assumed.


// Measured and dropped as well: even a Display harness over three CONCRETE instants does not finish in 900 s
// (core::fmt integer formatting under CBMC). Display layout stays an assumption.

// Whole `DateTime::from(SystemTime)` on concrete boundary instants (the last/first day of every cycle the
// decomposition distinguishes, both sides of the epoch, fractional seconds). Concrete inputs constant-fold, so this is
// cheap; it is a sampled stand-in that yields a replayable witness when the calendar body is wrong at a cycle boundary
// (the unbounded statement is the Verus proof of the same code).
fn k_is_leap(y: i64) -> bool { y.rem_euclid(4) == 0 && (y.rem_euclid(100) != 0 || y.rem_euclid(400) == 0) }
fn k_cum(m: i64) -> i64 { match m { 1 => 0, 2 => 31, 3 => 59, 4 => 90, 5 => 120, 6 => 151, 7 => 181, 8 => 212, 9 => 243, 10 => 273, 11 => 304, _ => 334 } }
fn k_dim(y: i64, m: i64) -> i64 { if m == 2 { if k_is_leap(y) { 29 } else { 28 } } else if m == 4 || m == 6 || m == 9 || m == 11 { 30 } else { 31 } }
fn k_unix_day(y: i64, m: i64, d: i64) -> i64 {
    365 * (y - 1) + (y - 1).div_euclid(4) - (y - 1).div_euclid(100) + (y - 1).div_euclid(400)
        + k_cum(m) + (if m > 2 && k_is_leap(y) { 1 } else { 0 }) + d - 719163
}
fn ok_at(t: i64, nanos: u32) -> bool {
    let st = if t >= 0 { UNIX_EPOCH + Duration::new(t as u64, nanos) } else { UNIX_EPOCH - Duration::new((-t) as u64, 0) + Duration::new(0, nanos) };
    let r = DateTime::from(st);
    let (y, m, d) = (r.year, r.month as i64, r.day as i64);
    m >= 1 && m <= 12 && d >= 1 && d <= k_dim(y, m) && r.hour < 24 && r.minute < 60 && r.second < 60 && r.nanos == nanos
        && k_unix_day(y, m, d) * 86_400 + r.hour as i64 * 3600 + r.minute as i64 * 60 + r.second as i64 == t
}
// BOUND: 16 concrete instants at cycle boundaries (not symbolic)
#[kani::proof]
#[kani::unwind(18)]
fn c20_boundary_instants_bounded() {
    const DAY: i64 = 86_400;
    // 2000-02-29 (last day of a 400-year cycle), 2000-03-01 (cycle start), 2100-02-28 / 03-01 (100-year boundary, not leap),
    // 2004-02-29 / 03-01 (4-year boundary), 2001-02-28 / 03-01 (1-year boundary), 1600-02-29, 2400-02-29, 1900-02-28 / 03-01,
    // the epoch, one second before it, a fractional instant before it, a far-future one
    let ts: [i64; 16] = [951_782_400, 951_868_800, 4_107_456_000, 4_107_542_400, 1_078_012_800, 1_078_099_200, 983_318_400, 983_404_800,
                         -11_670_998_400, 13_574_563_200, -2_203_977_600, -2_203_891_200, 0, -1, -86_401, 253_402_300_799];
    let mut i = 0;
    while i < 16 {
        assert!(ok_at(ts[i], 0), "C20.boundary_instant.fields_are_the_calendar_date_of_the_instant");
        assert!(ok_at(ts[i] + DAY - 1, 999_999_999), "C20.boundary_instant.last_second_of_that_day_with_fraction");
        i += 1;
    }
}

// The month walk: first and last day of every month of a common year (2023) and a leap year (2024), midnight and the
// last nanosecond of the day. Added after seeded change C20-5 (a closed-form month computation that is off by one on
// three month ends) rewrote the loop the Verus proof annotates: the proof is then lost (UNDECIDED), and the cycle
// boundaries above do not touch a 31st.
// BOUND: 48 concrete days x 2 instants (not symbolic)
#[kani::proof]
#[kani::unwind(26)]
fn c20_first_and_last_day_of_every_month_bounded() {
    const DAY: i64 = 86_400;
    let mut yi = 0;
    while yi < 2 {
        let y: i64 = if yi == 0 { 2023 } else { 2024 };
        let mut m: i64 = 1;
        while m <= 12 {
            let first = k_unix_day(y, m, 1) * DAY; let last = k_unix_day(y, m, k_dim(y, m)) * DAY;
            assert!(ok_at(first, 0) && ok_at(first + DAY - 1, 999_999_999), "C20.month_walk.first_day_of_each_month_is_that_day");
            assert!(ok_at(last, 0) && ok_at(last + DAY - 1, 999_999_999), "C20.month_walk.last_day_of_each_month_is_that_day");
            m += 1;
        }
        yi += 1;
    }
}

// Display layout at concrete dates (a SYMBOLIC Display did not finish: core::fmt padding over 64-bit values): the year
// sign / width boundaries (-1, 0, 1, 9998, 9999, 10000), single-digit month / day / time fields, truncated micros
struct Cmp { want: &'static [u8], pos: usize, ok: bool }
impl core::fmt::Write for Cmp {
    fn write_str(&mut self, s: &str) -> core::fmt::Result {
        let b = s.as_bytes(); let mut i = 0;
        while i < b.len() { if self.pos >= self.want.len() || self.want[self.pos] != b[i] { self.ok = false; } self.pos += 1; i += 1; }
        Ok(())
    }
}
fn prints_as(dt: DateTime, want: &'static str) -> bool {
    use core::fmt::Write;
    let mut c = Cmp { want: want.as_bytes(), pos: 0, ok: true };
    let r = write!(c, "{}", dt);
    r.is_ok() && c.ok && c.pos == want.len()
}
// BOUND: 7 concrete dates (not symbolic)
#[kani::proof]
#[kani::unwind(34)]
fn c20_display_layout_at_concrete_dates_bounded() {
    let k: u8 = kani::any(); kani::assume(k < 7);
    let ok = match k {
        0 => prints_as(DateTime { year: 9999, month: 1, day: 1, hour: 0, minute: 0, second: 0, nanos: 0 }, "9999-01-01T00:00:00.000000Z"),
        1 => prints_as(DateTime { year: 10000, month: 1, day: 1, hour: 0, minute: 0, second: 0, nanos: 0 }, "+10000-01-01T00:00:00.000000Z"),
        2 => prints_as(DateTime { year: 9998, month: 12, day: 31, hour: 23, minute: 59, second: 59, nanos: 999_999_999 }, "9998-12-31T23:59:59.999999Z"),
        3 => prints_as(DateTime { year: 1, month: 2, day: 3, hour: 4, minute: 5, second: 6, nanos: 7_000 }, "0001-02-03T04:05:06.000007Z"),
        4 => prints_as(DateTime { year: 0, month: 2, day: 29, hour: 0, minute: 0, second: 0, nanos: 999 }, "0000-02-29T00:00:00.000000Z"),
        5 => prints_as(DateTime { year: -1, month: 12, day: 31, hour: 0, minute: 0, second: 0, nanos: 1_000 }, "-0001-12-31T00:00:00.000001Z"),
        _ => prints_as(DateTime { year: 2024, month: 2, day: 29, hour: 12, minute: 34, second: 56, nanos: 789_012_345 }, "2024-02-29T12:34:56.789012Z"),
    };
    assert!(ok, "C20.Display.rfc3339_layout_zero_padding_year_sign_and_truncated_micros_at_concrete_dates");
}
