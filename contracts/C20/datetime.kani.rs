// C20 — Kani obligations on the real `DateTime` code of tracing-subscriber (module appended to datetime.rs).
// `__extracted_prelude` (generated below by the plan, mechanically, on every run) is the statement
// `let (t, nanos) = match timestamp.duration_since(UNIX_EPOCH) {..};` of `impl From<SystemTime> for DateTime`,
// i.e. exactly the prefix that the Verus unit `civil` drops (T4 split).
use std::time::{Duration, SystemTime, UNIX_EPOCH};

fn nd<T: kani::Arbitrary>() -> T { kani::any() }

// Prelude for EVERY representable instant (precondition: secs < i64::MAX, nanos < 1e9):
// (t, nanos) is the floor-seconds / sub-second split of the signed instant, 0 <= nanos < 1e9,
// i.e. t * 1e9 + nanos == signed nanoseconds since the epoch.
// NOTE: unwind(3) bounds the one-level recursion of std's Timespec::sub_timespec (unwinding assertion on)
#[kani::proof]
#[kani::unwind(3)]
fn c20_prelude_floor_split() {
    let before: bool = nd(); let secs: u64 = nd(); let nanos: u32 = nd();
    kani::assume(nanos < 1_000_000_000);
    kani::assume(secs < i64::MAX as u64);
    let d = Duration::new(secs, nanos);
    let st = if before { UNIX_EPOCH.checked_sub(d) } else { UNIX_EPOCH.checked_add(d) };
    if let Some(st) = st {
        kani::cover!(before && nanos != 0, "C20.reachable.before_epoch_fractional");
        kani::cover!(!before, "C20.reachable.after_epoch");
        let (t, sub) = __extracted_prelude(st);
        assert!(sub < 1_000_000_000, "C20.prelude.subsecond_in_range");
        // floor split of the signed instant: +(secs + nanos/1e9) = secs + nanos/1e9 ;
        // -(secs + nanos/1e9) = -secs (nanos = 0) or (-secs - 1) + (1e9 - nanos)/1e9
        let (want_t, want_sub) = if !before { (secs as i64, nanos) }
            else if nanos == 0 { (-(secs as i64), 0) }
            else { (-(secs as i64) - 1, 1_000_000_000 - nanos) };
        assert!(t == want_t, "C20.prelude.floor_seconds");
        assert!(sub == want_sub, "C20.prelude.subsecond_part");
    }
}


// Measured and dropped (DESIGN.md section 7): whole-function harnesses over `DateTime::from` (time of day for every
// instant; Rata-Die equality on a +-2^32 s window) and a symbolic `Display` harness each exceed 20 min in CBMC
// (64-bit div/mod chains; core::fmt). The calendar body is proved by Verus instead; Display padding is assumed.

// exec mirror of the Verus spec functions (contracts/C20/civil_spec.verus.rs); years fit i32 in the window
fn k_is_leap(y: i32) -> bool { y.rem_euclid(4) == 0 && (y.rem_euclid(100) != 0 || y.rem_euclid(400) == 0) }
fn k_cum(m: i32) -> i32 { match m { 1 => 0, 2 => 31, 3 => 59, 4 => 90, 5 => 120, 6 => 151, 7 => 181, 8 => 212, 9 => 243, 10 => 273, 11 => 304, _ => 334 } }
fn k_dim(y: i32, m: i32) -> i32 { if m == 2 { if k_is_leap(y) { 29 } else { 28 } } else if m == 4 || m == 6 || m == 9 || m == 11 { 30 } else { 31 } }
fn k_unix_day(y: i32, m: i32, d: i32) -> i32 {
    365 * (y - 1) + (y - 1).div_euclid(4) - (y - 1).div_euclid(100) + (y - 1).div_euclid(400)
        + k_cum(m) + (if m > 2 && k_is_leap(y) { 1 } else { 0 }) + d - 719163
}
// Paired with the unbounded Verus proof of the same extracted text: yields a replayable counterexample
// when the calendar code is wrong inside the window.
// TIER: thorough
// BOUND: t within +-2^32 s (~1833..2106; includes the 2000 leap year and the 1900/2100 non-leap centuries)
#[kani::proof]
#[kani::unwind(14)]
fn c20_civil_window_bounded() {
    let t: i64 = nd();
    kani::assume(t > -(1i64 << 32) && t < (1i64 << 32));
    let r = __extracted_civil(t, 0);
    kani::assume(r.year > -10_000 && r.year < 10_000);
    let (y, m, d) = (r.year as i32, r.month as i32, r.day as i32);
    assert!(m >= 1 && m <= 12 && d >= 1 && d <= k_dim(y, m), "C20.valid_date");
    assert!(r.hour < 24 && r.minute < 60 && r.second < 60, "C20.time_ranges");
    assert!(k_unix_day(y, m, d) as i64 * 86_400 + r.hour as i64 * 3600 + r.minute as i64 * 60 + r.second as i64 == t, "C20.instant_equals_fields");
}
