// ---- spec (from the property statement: proleptic-Gregorian UTC date of an instant) ----
spec fn is_leap(y: int) -> bool { y % 4 == 0 && (y % 100 != 0 || y % 400 == 0) }
spec fn cum(m: int) -> int {
    if m == 1 {0} else if m == 2 {31} else if m == 3 {59} else if m == 4 {90} else if m == 5 {120}
    else if m == 6 {151} else if m == 7 {181} else if m == 8 {212} else if m == 9 {243}
    else if m == 10 {273} else if m == 11 {304} else {334}
}
spec fn dim(y: int, m: int) -> int {
    if m == 2 { if is_leap(y) {29} else {28} } else if m == 4 || m == 6 || m == 9 || m == 11 {30} else {31}
}
// days since 1970-01-01 of proleptic Gregorian (y, m, d): the textbook Rata-Die count
spec fn unix_day(y: int, m: int, d: int) -> int {
    365 * (y - 1) + (y - 1) / 4 - (y - 1) / 100 + (y - 1) / 400
      + cum(m) + (if m > 2 && is_leap(y) {1int} else {0int}) + d - 719163
}
spec fn valid_date(y: int, m: int, d: int) -> bool { 1 <= m <= 12 && 1 <= d <= dim(y, m) }
// cumulative days of the March-based month table used by the code
spec fn mcum(k: int) -> int {
    if k <= 0 {0} else if k == 1 {31} else if k == 2 {61} else if k == 3 {92} else if k == 4 {122}
    else if k == 5 {153} else if k == 6 {184} else if k == 7 {214} else if k == 8 {245} else if k == 9 {275}
    else if k == 10 {306} else if k == 11 {337} else {366}
}
spec fn mlen(k: int) -> int { mcum(k + 1) - mcum(k) }   // 31,30,31,30,31,31,30,31,30,31,31,29
spec fn leaps(n: int) -> int { n / 4 - n / 100 + n / 400 }

proof fn lemma_leaps_shift(k: int)
    ensures leaps(2000 + k) == 485 + leaps(k)
{
    assert((2000 + k) / 4 == 500 + k / 4);
    assert((2000 + k) / 100 == 20 + k / 100);
    assert((2000 + k) / 400 == 5 + k / 400);
}

proof fn lemma_leaps_step(n: int)
    ensures leaps(n) == leaps(n - 1) + (if is_leap(n) {1int} else {0int})
{
    assert(n / 4 == (n - 1) / 4 + (if n % 4 == 0 {1int} else {0int}));
    assert(n / 100 == (n - 1) / 100 + (if n % 100 == 0 {1int} else {0int}));
    assert(n / 400 == (n - 1) / 400 + (if n % 400 == 0 {1int} else {0int}));
    assert(n % 400 == 0 ==> n % 100 == 0);
    assert(n % 100 == 0 ==> n % 4 == 0);
}

proof fn lemma_years(qc: int, c: int, q: int, ry: int)
    requires 0 <= c <= 3, 0 <= q <= 24, 0 <= ry <= 3
    ensures ({
        let years = ry + 4 * q + 100 * c + 400 * qc;
        &&& leaps(years) == q + 24 * c + 97 * qc
        &&& 365 * years + leaps(years) == qc * 146097 + c * 36524 + q * 1461 + ry * 365
        &&& (is_leap(2000 + years + 1) <==> (ry == 3 && (q < 24 || c == 3)))
    })
{
    let years = ry + 4 * q + 100 * c + 400 * qc;
    assert(years / 4 == q + 25 * c + 100 * qc);
    assert(years / 100 == c + 4 * qc);
    assert(years / 400 == qc);
    let y1 = 2001 + years;
    assert(y1 % 4 == (ry + 1) % 4);
    assert(y1 % 100 == (1 + ry + 4 * q) % 100);
    assert(y1 % 400 == (1 + ry + 4 * q + 100 * c) % 400);
}

proof fn lemma_calendar(dd: int, qc: int, c: int, q: int, ry: int, doy: int, months: int, rem: int)
    requires
        0 <= c <= 3, 0 <= q <= 24, 0 <= ry <= 3, 0 <= doy <= 365,
        c < 3 ==> q * 1461 + ry * 365 + doy < 36524,
        q < 24 ==> ry * 365 + doy < 1461,
        (q == 24 && c < 3) ==> ry * 365 + doy < 1460,
        ry < 3 ==> doy < 365,
        dd == 11017 + qc * 146097 + c * 36524 + q * 1461 + ry * 365 + doy,
        0 <= months < 12, doy == mcum(months) + rem, 0 <= rem < mlen(months),
    ensures ({
        let years = ry + 4 * q + 100 * c + 400 * qc;
        let y = if months >= 10 { years + 2001 } else { years + 2000 };
        let m = if months >= 10 { months - 9 } else { months + 3 };
        valid_date(y, m, rem + 1) && unix_day(y, m, rem + 1) == dd
    })
{
    let years = ry + 4 * q + 100 * c + 400 * qc;
    lemma_years(qc, c, q, ry);
    let yy = 2000 + years;           // year in which this March-based year starts
    lemma_leaps_shift(years);
    lemma_leaps_step(yy);
    lemma_leaps_step(yy + 1);
    assert(unix_day(yy, 3, 1) == 11017 + 365 * years + leaps(years));
    if months >= 10 {
        assert(unix_day(yy + 1, 1, 1) == unix_day(yy, 3, 1) + 306);
    }
}

// guards against a vacuous `requires` / a spec that is accidentally constant
proof fn sanity() {
    lemma_calendar(0, -1, 3, 17, 1, 306, 10, 0);
    assert(unix_day(1970, 1, 1) == 0);
    assert(unix_day(2000, 3, 1) == 11017);
    assert(unix_day(2024, 2, 29) == 19782);
    assert(unix_day(1969, 12, 31) == -1);
    assert(!valid_date(2023, 2, 29) && valid_date(2024, 2, 29) && !valid_date(1900, 2, 29) && valid_date(2000, 2, 29));
}

// ---- uniqueness: unix_day is strictly monotone in (y, m, d) over valid dates, so the decomposition
//      proved for civil_from_secs is *the* calendar date, and later instants give later-or-equal tuples.
spec fn year_start(y: int) -> int { unix_day(y, 1, 1) }
spec fn year_len(y: int) -> int { if is_leap(y) { 366 } else { 365 } }

proof fn lemma_year_step(y: int)
    ensures year_start(y + 1) == year_start(y) + year_len(y)
{
    lemma_leaps_step(y);
    assert(leaps(y) == y / 4 - y / 100 + y / 400);
}

proof fn lemma_year_mono(a: int, b: int)
    requires a <= b
    ensures year_start(b) - year_start(a) >= 365 * (b - a)
    decreases b - a
{
    if a < b {
        lemma_year_mono(a, b - 1);
        lemma_year_step(b - 1);
    }
}

spec fn doy(y: int, m: int, d: int) -> int { cum(m) + (if m > 2 && is_leap(y) {1int} else {0int}) + d }

proof fn lemma_doy_bounds(y: int, m: int, d: int)
    requires valid_date(y, m, d)
    ensures 1 <= doy(y, m, d) <= year_len(y), unix_day(y, m, d) == year_start(y) + doy(y, m, d) - 1
{ }

proof fn lemma_doy_mono(y: int, m1: int, d1: int, m2: int, d2: int)
    requires valid_date(y, m1, d1), valid_date(y, m2, d2), m1 < m2 || (m1 == m2 && d1 < d2)
    ensures doy(y, m1, d1) < doy(y, m2, d2)
{ }

spec fn date_lt(y1: int, m1: int, d1: int, y2: int, m2: int, d2: int) -> bool {
    y1 < y2 || (y1 == y2 && (m1 < m2 || (m1 == m2 && d1 < d2)))
}

proof fn lemma_unix_day_strictly_monotone(y1: int, m1: int, d1: int, y2: int, m2: int, d2: int)
    requires valid_date(y1, m1, d1), valid_date(y2, m2, d2), date_lt(y1, m1, d1, y2, m2, d2)
    ensures unix_day(y1, m1, d1) < unix_day(y2, m2, d2)
{
    lemma_doy_bounds(y1, m1, d1);
    lemma_doy_bounds(y2, m2, d2);
    if y1 < y2 {
        lemma_year_step(y1);
        lemma_year_mono(y1 + 1, y2);
    } else {
        lemma_doy_mono(y1, m1, d1, m2, d2);
    }
}

// Two decompositions of instants t1 <= t2 that both satisfy civil_from_secs's postcondition are ordered
// lexicographically: the printed fields never go backwards.  (t1 == t2 gives uniqueness.)
proof fn lemma_order_preserving(
    t1: int, y1: int, mo1: int, d1: int, h1: int, mi1: int, s1: int,
    t2: int, y2: int, mo2: int, d2: int, h2: int, mi2: int, s2: int)
    requires
        valid_date(y1, mo1, d1), 0 <= h1 < 24, 0 <= mi1 < 60, 0 <= s1 < 60,
        valid_date(y2, mo2, d2), 0 <= h2 < 24, 0 <= mi2 < 60, 0 <= s2 < 60,
        unix_day(y1, mo1, d1) * 86400 + h1 * 3600 + mi1 * 60 + s1 == t1,
        unix_day(y2, mo2, d2) * 86400 + h2 * 3600 + mi2 * 60 + s2 == t2,
        t1 <= t2,
    ensures
        !date_lt(y2, mo2, d2, y1, mo1, d1),
        (y1 == y2 && mo1 == mo2 && d1 == d2) ==> h1 * 3600 + mi1 * 60 + s1 <= h2 * 3600 + mi2 * 60 + s2,
        t1 == t2 ==> (y1 == y2 && mo1 == mo2 && d1 == d2 && h1 == h2 && mi1 == mi2 && s1 == s2),
{
    let r1 = h1 * 3600 + mi1 * 60 + s1;
    let r2 = h2 * 3600 + mi2 * 60 + s2;
    assert(0 <= r1 < 86400 && 0 <= r2 < 86400);
    if date_lt(y2, mo2, d2, y1, mo1, d1) {
        lemma_unix_day_strictly_monotone(y2, mo2, d2, y1, mo1, d1);
        assert(unix_day(y2, mo2, d2) + 1 <= unix_day(y1, mo1, d1));
        assert(false);
    }
    if t1 == t2 {
        if date_lt(y1, mo1, d1, y2, mo2, d2) {
            lemma_unix_day_strictly_monotone(y1, mo1, d1, y2, mo2, d2);
            assert(false);
        }
        assert(r1 == r2);
        assert(h1 == h2 && mi1 == mi2 && s1 == s2) by {
            assert(r1 / 3600 == h1) by(nonlinear_arith) requires r1 == h1 * 3600 + mi1 * 60 + s1, 0 <= mi1 < 60, 0 <= s1 < 60, 0 <= h1;
            assert(r2 / 3600 == h2) by(nonlinear_arith) requires r2 == h2 * 3600 + mi2 * 60 + s2, 0 <= mi2 < 60, 0 <= s2 < 60, 0 <= h2;
        }
    }
}

// Display: the microsecond field is nanos / 1000 (truncation, never rounded up)
proof fn lemma_micros_truncate(nanos: int)
    requires 0 <= nanos < 1_000_000_000
    ensures 0 <= nanos / 1000 < 1_000_000, (nanos / 1000) * 1000 <= nanos < (nanos / 1000 + 1) * 1000
{ }
