// C06 (per-thread span stack) — appended to registry/stack.rs (real SpanStack::{push,pop,iter,current}).
fn nd<T: kani::Arbitrary>() -> T { kani::any() }
fn pad_stub<'a>(_f: &mut core::fmt::Formatter<'a>, _s: &str) -> core::fmt::Result where 'a: 'a { Ok(()) }

/// spec model of the entered-span stack: entries (id, duplicate) in push order
#[derive(Clone, Copy)]
struct M { n: usize, id: [u64; 5], dup: [bool; 5] }
impl M {
    fn contains(&self, x: u64) -> bool { let mut i = 0; let mut r = false; while i < self.n { if self.id[i] == x { r = true; } i += 1; } r }
    fn push(&mut self, x: u64) -> bool { let d = self.contains(x); self.id[self.n] = x; self.dup[self.n] = d; self.n += 1; !d }
    /// remove the LAST entry with that id, keep the order of all others
    fn pop(&mut self, x: u64) -> bool {
        let mut at = usize::MAX; let mut i = 0;
        while i < self.n { if self.id[i] == x { at = i; } i += 1; }
        if at == usize::MAX { return false; }
        let d = self.dup[at];
        let mut j = at; while j + 1 < self.n { self.id[j] = self.id[j + 1]; self.dup[j] = self.dup[j + 1]; j += 1; }
        self.n -= 1;
        !d
    }
    /// most recently entered, not yet exited (last non-duplicate entry)
    fn current(&self) -> Option<u64> { let mut r = None; let mut i = 0; while i < self.n { if !self.dup[i] { r = Some(self.id[i]); } i += 1; } r }
}
fn same(real: &SpanStack, m: &M) -> bool {
    if real.stack.len() != m.n { return false; }
    let mut i = 0; let mut ok = true;
    while i < m.n { if real.stack[i].id.into_u64() != m.id[i] || real.stack[i].duplicate != m.dup[i] { ok = false; } i += 1; }
    ok
}

// BOUND: histories enter x, enter y, enter z, exit u, exit v over span ids {1,2,3} (all 243 choices: re-entry of the
// same span, out-of-order exits, exits of spans that were never entered); a fully free op sequence exceeded the 24 GB cap
#[kani::proof]
#[kani::unwind(7)]
#[kani::stub(core::fmt::Formatter::pad, pad_stub)]
fn c06_span_stack_mirrors_enter_exit_history_bounded() {
    let mut real = SpanStack::default();
    let mut m = M { n: 0, id: [0; 5], dup: [false; 5] };
    let ids: [u64; 5] = nd();
    let mut k = 0; while k < 5 { kani::assume(ids[k] >= 1 && ids[k] <= 3); k += 1; }
    let mut step = 0;
    while step < 5 {
        let x = ids[step];
        if step < 3 {
            let a = real.push(Id::from_u64(x)); let b = m.push(x);
            assert!(a == b, "C06.SpanStack.push.reports_first_entry_vs_duplicate");
        } else {
            let a = real.pop(&Id::from_u64(x)); let b = m.pop(x);
            assert!(a == b, "C06.SpanStack.pop.reports_whether_the_removed_entry_was_the_real_one");
        }
        assert!(same(&real, &m), "C06.SpanStack.removes_the_LAST_matching_entry_and_keeps_the_order_of_the_others");
        assert!(real.current().map(|i| i.into_u64()) == m.current(), "C06.SpanStack.current_is_most_recently_entered_not_yet_exited");
        step += 1;
    }
    // iteration = non-duplicate entries, newest first
    let mut it = real.iter(); let mut i = m.n;
    while i > 0 { i -= 1; if !m.dup[i] { assert!(it.next().map(|x| x.into_u64()) == Some(m.id[i]), "C06.SpanStack.iter.newest_first_without_duplicates"); } }
    assert!(it.next().is_none(), "C06.SpanStack.iter.nothing_else");
}
