// C06 (event parent resolution / lookup_current) — appended to registry/sharded.rs so that the stub for
// `Registry::span_stack` can name the private `SpanStack` type.
fn any_table() -> VRoot {
    let mut r = VRoot::empty();
    let mut i = 1;
    while i <= VNSPAN { r.exists[i] = true; r.parent[i] = nd(); kani::assume(r.parent[i] < i as u64); r.bits[i] = nd(); i += 1; }
    r
}
/// `Context::lookup_current` falls back to the real Registry's per-thread span stack when the collector IS a Registry
/// (thread_local::ThreadLocal: crashes the Kani compiler when reachable). The stub root is not a Registry, so the
/// fallback is never taken; this stub only removes it from the reachable code.
fn span_stack_stub(_r: &Registry) -> std::cell::Ref<'_, SpanStack> { unreachable!() }
// BOUND: span tables of 4 spans
#[kani::proof]
#[kani::unwind(7)]
#[kani::stub(core::fmt::Formatter::pad, pad_stub)]
#[kani::stub(Registry::span_stack, span_stack_stub)]
fn c06_event_parent_resolution_bounded() {
    let mut root = any_table();
    root.current = nd(); kani::assume(root.current <= VNSPAN as u64);
    let cx = crate::subscribe::Context::__verif_new(&root);
    let vs = VMETA.fields().value_set(&[]);
    let mode: u8 = nd(); kani::assume(mode < 3);
    let explicit: u64 = nd(); kani::assume(explicit >= 1 && explicit <= VNSPAN as u64);
    let ev = match mode { 0 => tracing_core::Event::new(&VMETA, &vs), 1 => tracing_core::Event::new_child_of(None, &VMETA, &vs), _ => tracing_core::Event::new_child_of(vspan::Id::from_u64(explicit), &VMETA, &vs) };
    let got = cx.event_span(&ev).map(|s| s.id().into_u64());
    let want = match mode { 0 => if root.current == 0 { None } else { Some(root.current) }, 1 => None, _ => Some(explicit) };
    assert!(got == want, "C06.event_span.contextual_is_current_span_explicit_parent_or_root_overrides");
    assert!(cx.lookup_current().map(|s| s.id().into_u64()) == if root.current == 0 { None } else { Some(root.current) }, "C06.lookup_current.is_the_collectors_current_span");
}
