// C06 (event parent resolution / lookup_current) — appended to registry/sharded.rs so that the stub for
// `Registry::span_stack` can name the private `SpanStack` type.
fn any_table() -> VRoot {
    let mut r = VRoot::empty();
    let mut i = 1;
    while i <= VNSPAN { r.exists[i] = true; r.parent[i] = nd(); kani::assume(r.parent[i] < i as u64); r.bits[i] = nd(); i += 1; }
    r
}
/// `Context::lookup_current` falls back to the real Registry's per-thread span stack when the collector IS a Registry
/// (thread_local::ThreadLocal: crashes the Kani compiler when reachable). The stub root is not a Registry, so the
/// fallback is never taken; this stub only removes it from the reachable code.
fn span_stack_stub(_r: &Registry) -> std::cell::Ref<'_, SpanStack> { unreachable!() }
// BOUND: span tables of 4 spans
#[kani::proof]
#[kani::unwind(7)]
#[kani::stub(core::fmt::Formatter::pad, pad_stub)]
#[kani::stub(Registry::span_stack, span_stack_stub)]
fn c06_event_parent_resolution_bounded() {
    let mut root = any_table();
    root.current = nd(); kani::assume(root.current <= VNSPAN as u64);
    let cx = crate::subscribe::Context::__verif_new(&root);
    let vs = VMETA.fields().value_set(&[]);
    let mode: u8 = nd(); kani::assume(mode < 3);
    let explicit: u64 = nd(); kani::assume(explicit >= 1 && explicit <= VNSPAN as u64);
    let ev = match mode { 0 => tracing_core::Event::new(&VMETA, &vs), 1 => tracing_core::Event::new_child_of(None, &VMETA, &vs), _ => tracing_core::Event::new_child_of(vspan::Id::from_u64(explicit), &VMETA, &vs) };
    let got = cx.event_span(&ev).map(|s| s.id().into_u64());
    let want = match mode { 0 => if root.current == 0 { None } else { Some(root.current) }, 1 => None, _ => Some(explicit) };
    assert!(got == want, "C06.event_span.contextual_is_current_span_explicit_parent_or_root_overrides");
    assert!(cx.lookup_current().map(|s| s.id().into_u64()) == if root.current == 0 { None } else { Some(root.current) }, "C06.lookup_current.is_the_collectors_current_span");
}

// the Context entry points for scope walks: span_scope(id) is the scope of span id ITSELF (leaf first), event_scope(ev)
// is the scope of event_span(ev) - contextual events start at the current span, explicit parents at that parent,
// explicit roots have no scope
// BOUND: span tables of 4 spans
#[kani::proof]
#[kani::unwind(7)]
#[kani::stub(core::fmt::Formatter::pad, pad_stub)]
#[kani::stub(Registry::span_stack, span_stack_stub)]
fn c06_span_scope_and_event_scope_start_at_the_right_span_bounded() {
    let mut root = any_table();
    root.current = nd(); kani::assume(root.current <= VNSPAN as u64);
    let cx = crate::subscribe::Context::__verif_new(&root);
    let leaf: u64 = nd(); kani::assume(leaf >= 1 && leaf <= VNSPAN as u64);
    // span_scope: first element is the span itself, second its parent (or none)
    let mut it = cx.span_scope(&vspan::Id::from_u64(leaf)).unwrap();
    assert!(it.next().map(|g| g.id().into_u64()) == Some(leaf), "C06.span_scope.starts_with_the_span_itself");
    let p = root.parent[leaf as usize];
    assert!(it.next().map(|g| g.id().into_u64()) == if p == 0 { None } else { Some(p) }, "C06.span_scope.then_its_parent");
    // event_scope
    let vs = VMETA.fields().value_set(&[]);
    let mode: u8 = nd(); kani::assume(mode < 3);
    let ev = match mode { 0 => tracing_core::Event::new(&VMETA, &vs), 1 => tracing_core::Event::new_child_of(None, &VMETA, &vs), _ => tracing_core::Event::new_child_of(vspan::Id::from_u64(leaf), &VMETA, &vs) };
    let start = match mode { 0 => root.current, 1 => 0, _ => leaf };
    match cx.event_scope(&ev) {
        None => assert!(start == 0, "C06.event_scope.none_only_for_a_root_event_or_no_current_span"),
        Some(mut sc) => {
            assert!(start != 0 && sc.next().map(|g| g.id().into_u64()) == Some(start), "C06.event_scope.starts_at_the_events_parent_span");
            let pp = root.parent[start as usize];
            assert!(sc.next().map(|g| g.id().into_u64()) == if pp == 0 { None } else { Some(pp) }, "C06.event_scope.then_that_spans_parent");
        }
    }
}

// ---------- Registry::new_span's parent resolution: the `let parent = ...;` statement is extracted from the real function
// on every run (generator gen_parent_resolution, appended below this file) and run over a recording stand-in for the two
// registry operations it uses.
struct VReg { current: u64, clones: core::cell::Cell<u32>, cloned: core::cell::Cell<u64> }
impl VParentOps for VReg {
    fn current_span(&self) -> tracing_core::span::Current {
        if self.current == 0 { tracing_core::span::Current::none() } else { tracing_core::span::Current::new(vspan::Id::from_u64(self.current), &VMETA_SPAN) }
    }
    fn clone_span(&self, id: &vspan::Id) -> vspan::Id { self.clones.set(self.clones.get() + 1); self.cloned.set(id.into_u64()); id.clone() }
}
#[kani::proof]
#[kani::unwind(4)]
#[kani::stub(core::fmt::Formatter::pad, pad_stub)]
fn c06_new_span_parent_is_root_contextual_or_explicit() {
    let reg = VReg { current: nd(), clones: core::cell::Cell::new(0), cloned: core::cell::Cell::new(0) };
    let vs = VMETA_SPAN.fields().value_set(&[]);
    let mode: u8 = nd(); kani::assume(mode < 3);
    let explicit: u64 = nd(); kani::assume(explicit >= 1);
    let attrs = match mode { 0 => vspan::Attributes::new(&VMETA_SPAN, &vs), 1 => vspan::Attributes::new_root(&VMETA_SPAN, &vs), _ => vspan::Attributes::child_of(vspan::Id::from_u64(explicit), &VMETA_SPAN, &vs) };
    let got = __extracted_resolve_parent(&reg, &attrs).map(|id| id.into_u64());
    let want = match mode { 0 => if reg.current == 0 { None } else { Some(reg.current) }, 1 => None, _ => Some(explicit) };
    assert!(got == want, "C06.new_span.parent_is_current_span_unless_explicit_parent_or_explicit_root");
    // a reference is taken on the chosen parent (so its data outlives the child), exactly once, and on nothing else
    assert!(reg.clones.get() == want.is_some() as u32 && (want.is_none() || reg.cloned.get() == want.unwrap()), "C06.new_span.takes_exactly_one_reference_on_the_chosen_parent");
    kani::cover!(mode == 1 && reg.current != 0, "C06.reachable.explicit_root_while_a_span_is_current");
}
