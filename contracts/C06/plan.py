import importlib.util, os
_p = os.path.join(os.path.dirname(os.path.dirname(os.path.abspath(__file__))), "C07", "plan.py")
_s = importlib.util.spec_from_file_location("plan_C07_for_C06", _p); _m = importlib.util.module_from_spec(_s); _s.loader.exec_module(_m)

SH = "tracing-subscriber/src/registry/sharded.rs"
def gen_parent_resolution(repo):
    """T4 prefix of Registry::new_span: the `let parent = ...;` statement, with `self` renamed to a generic receiver that
    offers the two operations the statement uses (current_span, clone_span).  Everything after it (the slab entry that
    stores `parent`) is dropped - sharded_slab is out of Kani's reach."""
    import re
    from vlib import extract
    ex = extract.Extractor(repo)
    body = ex.fn_body(SH, r"fn new_span\(&self, attrs: &span::Attributes<'_>\) -> span::Id", within=r"impl Collect for Registry")
    prefix, _ = ex.split_after(body, "let parent =")
    prefix = re.sub(r"\bself\.", "self_.", prefix)
    if re.search(r"\bself\b", prefix):
        raise extract.AnchorLost("extracted parent-resolution statement uses `self` other than as a method receiver")
    return ("\n// ---- mechanically extracted from " + SH + " (T4 prefix of Registry::new_span; `self.` -> `self_.`) ----\n"
            "pub(crate) trait VParentOps { fn current_span(&self) -> tracing_core::span::Current; fn clone_span(&self, id: &span::Id) -> span::Id; }\n"
            "fn __extracted_resolve_parent<R: VParentOps>(self_: &R, attrs: &span::Attributes<'_>) -> Option<span::Id> {\n" + prefix + "\n    parent\n}\n")


PLAN = dict(
    id="C06", api_files=['tracing-subscriber/src/registry/stack.rs', 'tracing-subscriber/src/subscribe/context.rs', 'tracing-subscriber/src/registry/mod.rs'], level="other", explanation="SpanStack (the per-thread entered-span stack of the registry) is checked against an executable spec model for every history of up to 4 enter/exit operations over 3 ids: push/pop return values, the exact stack contents (pop removes the LAST matching entry, others keep their order), current() = most recently entered and not yet exited, iteration newest-first without duplicates. Scope / SpanRef::parent / Context::span / from_root / event_span / lookup_current are checked over a stub LookupSpan collector with a symbolic 4-span table (every acyclic parent relation, arbitrary per-span filter bits, arbitrary filter mask): the scope is exactly the chain of accepted ancestors leaf to root, from_root its reverse, parent the nearest accepted ancestor, contextual events take the collector's current span and explicit parent / explicit root override it. All bounded (stated); the registry glue is assumed.",
    functions_under_contract=['tracing-subscriber/src/registry/stack.rs: SpanStack::{push,pop,iter,current}', 'registry/sharded.rs: Registry::new_span - the parent-resolution statement, extracted mechanically on every run (root / contextual / explicit parent, one reference taken on the chosen parent)', 'registry/mod.rs: Iterator for Scope, Scope::from_root, SpanRef::{parent,scope,try_with_filter}', 'subscribe/context.rs: Context::{span,lookup_current,event_span,with_filter}'],
    trusted_base=["Kani 0.68 / CBMC 6.11 / CaDiCaL; Kani's std build (nightly-2026-08-21), not the repo toolchain's", 'core::fmt::Formatter::pad stubbed to Ok(()) with -Z stubbing (panic-message formatting on infeasible error branches; no harness that uses it reads formatted text)', 'cfg(kani) thread_local! shim and once_cell::sync::Lazy contract stub (see overlay_additions)'],
    assumptions=["Registry::{enter,exit,current_span,new_span} glue sits on thread_local::ThreadLocal and the sharded_slab pool (out of Kani's reach): that the stack is per thread and that span data stays readable while a descendant lives is NOT decided", "the stub root's span table stands for DataInner {parent, filter_map}"],
    not_covered=['the part of Registry::new_span after the extracted parent-resolution statement (storing the parent in the slab entry)', 'tracing-error SpanTrace', 'lookup_current_filtered (needs the real Registry)', 'histories longer than 4 operations / tables larger than 4 spans'],
    kani=[dict(
        crate="tracing-subscriber", tls_shim_crates=["tracing-core", "tracing-subscriber"], once_cell_stub=True,
        modules=[dict(name="__verif_c06s", attach="inline", file="tracing-subscriber/src/registry/stack.rs", modpath="registry::stack", files=["stack.kani.rs"]),
                 dict(name="__verif_c06", attach="inline", file="tracing-subscriber/src/subscribe/context.rs", modpath="subscribe::context",
                      files=["../common/sub_prelude.rs", "scope.kani.rs"]),
                 dict(name="__verif_c06e", attach="inline", file="tracing-subscriber/src/registry/sharded.rs", modpath="registry::sharded",
                      files=["../common/sub_prelude.rs", "event_parent.kani.rs"], generator="gen_parent_resolution")],
        append=_m.SUB_APPENDS,
    )],
    manifest=dict(technique='bounded equivalence of the real SpanStack with a spec model; bounded check of Scope/parent/Context resolution over a symbolic span table (Kani)',
        text="Bounded stand-in, not a proof: every enter/exit history of length <= 4 over 3 ids and every 4-span ancestry table with arbitrary per-layer filter bits. Within the bound the real code matches the statement's definitions exactly.",
        note='Bounds stated in evidence. Registry glue (per-thread storage, data lifetime) assumed, not decided.',
        design_ref="DESIGN.md section 4, C06"),
)
