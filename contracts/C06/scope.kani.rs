// C06 (parent / scope / current-span resolution) — appended to subscribe/context.rs; the collector is the stub
// root of contracts/common/sub_prelude.rs: a symbolic span table (parent links + per-span filter bits).
fn any_table() -> VRoot {
    let mut r = VRoot::empty();
    // ids 1..=4; a parent always has a smaller id (acyclic); 0 = root span
    let mut i = 1;
    while i <= VNSPAN { r.exists[i] = true; r.parent[i] = nd(); kani::assume(r.parent[i] < i as u64); r.bits[i] = nd(); i += 1; }
    r
}
fn enabled(r: &VRoot, id: u64, mask: u64) -> bool { r.bits[id as usize] & mask == 0 }

// BOUND: span tables of 4 spans (every acyclic parent relation, arbitrary per-span filter bits, arbitrary filter mask)
#[kani::proof]
#[kani::unwind(7)]
#[kani::stub(core::fmt::Formatter::pad, pad_stub)]
fn c06_scope_is_the_ancestor_chain_leaf_to_root_bounded() {
    let root = any_table();
    let k: u8 = nd(); kani::assume(k < 64); let filtered: bool = nd();
    let fid = if filtered { VFilterId::new(k) } else { VFilterId::none() };
    let mask = if filtered { 1u64 << k } else { 0 };
    let cx = Context::new(&root).with_filter(fid);
    let leaf: u64 = nd(); kani::assume(leaf >= 1 && leaf <= VNSPAN as u64);
    let lid = span::Id::from_u64(leaf);
    match cx.span(&lid) {
        None => assert!(!enabled(&root, leaf, mask), "C06.span.lookup_hidden_only_if_this_filter_rejected_it"),
        Some(s) => {
            assert!(enabled(&root, leaf, mask) && s.id().into_u64() == leaf, "C06.span.lookup_visible_iff_not_rejected");
            // walk the real Scope against the table
            let mut want = leaf; let mut it = s.scope();
            loop {
                // next expected ancestor-or-self that this filter accepts
                while want != 0 && !enabled(&root, want, mask) { want = root.parent[want as usize]; }
                let got = it.next();
                if want == 0 { assert!(got.is_none(), "C06.scope.ends_at_the_root"); break; }
                assert!(got.map(|g| g.id().into_u64()) == Some(want), "C06.scope.yields_exactly_the_accepted_ancestors_leaf_to_root");
                want = root.parent[want as usize];
            }
            // parent() = nearest accepted proper ancestor
            let mut p = root.parent[leaf as usize];
            while p != 0 && !enabled(&root, p, mask) { p = root.parent[p as usize]; }
            assert!(s.parent().map(|x| x.id().into_u64()) == if p == 0 { None } else { Some(p) }, "C06.parent.nearest_ancestor_this_filter_accepts");
        }
    }
}

// BOUND: span tables of 4 spans
#[kani::proof]
#[kani::unwind(7)]
#[kani::stub(core::fmt::Formatter::pad, pad_stub)]
fn c06_from_root_is_the_reverse_chain_bounded() {
    let root = any_table();
    let cx = Context::new(&root);
    let leaf: u64 = nd(); kani::assume(leaf >= 1 && leaf <= VNSPAN as u64);
    let s = cx.span(&span::Id::from_u64(leaf)).unwrap();
    // chain leaf -> root
    let mut chain = [0u64; VNSPAN + 1]; let mut n = 0; let mut c = leaf;
    while c != 0 { chain[n] = c; n += 1; c = root.parent[c as usize]; }
    let mut it = s.scope().from_root();
    while n > 0 { n -= 1; assert!(it.next().map(|g| g.id().into_u64()) == Some(chain[n]), "C06.from_root.root_to_leaf_order"); }
    assert!(it.next().is_none(), "C06.from_root.nothing_else");
}

// ---------- deep scopes: Scope::from_root buffers the walk in a SmallVec with 16 inline slots before reversing it; a
// linear chain 1 <- 2 <- ... <- n with n up to 20 crosses that threshold
pub(crate) struct VChain { n: u64 }
impl<'a> VLookupSpan<'a> for VChain {
    type Data = VData;
    fn span_data(&'a self, id: &vspan::Id) -> Option<VData> {
        let k = id.into_u64();
        if k == 0 || k > self.n { return None; }
        Some(VData::__chain(k))
    }
}
impl VCollect for VChain {
    fn enabled(&self, _: &VMetadata<'_>) -> bool { true }
    fn new_span(&self, _: &vspan::Attributes<'_>) -> vspan::Id { vspan::Id::from_u64(1) }
    fn record(&self, _: &vspan::Id, _: &vspan::Record<'_>) {}
    fn record_follows_from(&self, _: &vspan::Id, _: &vspan::Id) {}
    fn event(&self, _: &VEvent<'_>) {}
    fn enter(&self, _: &vspan::Id) {}
    fn exit(&self, _: &vspan::Id) {}
    fn current_span(&self) -> vspan::Current { vspan::Current::none() }
}
// BOUND: the linear chain of exactly 17 spans (one more than the 16-slot inline buffer); symbolic lengths 15..=20 did not finish in 900 s
#[kani::proof]
#[kani::unwind(20)]
#[kani::stub(core::fmt::Formatter::pad, pad_stub)]
fn c06_from_root_keeps_every_ancestor_of_a_deep_scope_bounded() {
    let n: u64 = 17;
    let root = VChain { n };
    let cx = Context::new(&root);
    let s = cx.span(&span::Id::from_u64(n)).unwrap();
    let mut it = s.scope().from_root();
    let mut want = 1u64;
    while want <= n { assert!(it.next().map(|g| g.id().into_u64()) == Some(want), "C06.from_root.deep_scope.every_ancestor_root_first"); want += 1; }
    assert!(it.next().is_none(), "C06.from_root.deep_scope.nothing_else");
}
