"""Run single-file Verus on an assembled unit and classify the outcome."""
import json
import os
import re
import subprocess
import time

ERR_RE = re.compile(r"^error(?:\[E\d+\])?: (.+?)\n\s+--> ([^\n:]+):(\d+):(\d+)", re.M)


def run_verus(path, rlimit=200, timeout=900, extra=()):
    cmd = ["verus", path, "--rlimit", str(rlimit), "--output-json", "--time"] + list(extra)
    t0 = time.time()
    try:
        p = subprocess.run(cmd, stdout=subprocess.PIPE, stderr=subprocess.PIPE, text=True, timeout=timeout,
                           cwd=os.path.dirname(path))
        out, err, rc = p.stdout, p.stderr, p.returncode
    except subprocess.TimeoutExpired as e:
        out, err, rc = "", "timeout", -9
    wall = time.time() - t0
    res = {"cmd": " ".join(cmd), "rc": rc, "wall_s": wall, "stderr": err, "verified": 0, "errors": 0,
           "functions": [], "failed_functions": [], "error_list": [], "kind": "undecided", "smt_ms": None}
    data = None
    i = out.find("{")
    if i >= 0:
        try:
            data = json.loads(out[i:])
        except Exception:
            data = None
    if data is None:
        res["reason"] = "no JSON from verus (rc=%s)" % rc
        return res
    vr = data.get("verification-results", {})
    res["verified"] = vr.get("verified", 0)
    res["errors"] = vr.get("errors", 0)
    tm = data.get("times-ms", {})
    smt = tm.get("smt", {}) if isinstance(tm, dict) else {}
    res["smt_ms"] = smt.get("smt-run")
    res["total_ms"] = tm.get("total") if isinstance(tm, dict) else None
    for mod in smt.get("smt-run-module-times", []) or []:
        for f in mod.get("function-breakdown", []):
            res["functions"].append({"function": f["function"], "mode": f.get("mode:"), "ms": f.get("time"),
                                     "rlimit": f.get("rlimit"), "success": f.get("success")})
            if not f.get("success"):
                res["failed_functions"].append(f["function"])
    src_lines = open(path).read().splitlines()
    for m in ERR_RE.finditer(err):
        msg, file, line = m.group(1), m.group(2), int(m.group(3))
        # which function encloses this line? walk upwards to the nearest fn header
        fn = None
        for k in range(line - 1, -1, -1):
            mm = re.match(r"\s*(?:pub\s+)?(?:proof\s+|spec\s+|exec\s+|broadcast\s+)*fn\s+([A-Za-z0-9_]+)", src_lines[k] if k < len(src_lines) else "")
            if mm:
                fn = mm.group(1)
                break
        res["error_list"].append({"msg": msg, "line": line, "fn": fn,
                                  "text": src_lines[line - 1].strip() if 0 < line <= len(src_lines) else ""})
    if vr.get("encountered-vir-error") or (rc != 0 and not res["error_list"] and res["errors"] == 0):
        res["kind"] = "undecided"
        res["reason"] = "verus front-end error (unsupported construct / compile error)"
        return res
    if vr.get("success") and rc == 0:
        res["kind"] = "pass"
        return res
    msgs = [e["msg"] for e in res["error_list"]]
    rlimit_hit = any("rlimit" in m.lower() or "resource limit" in m.lower() for m in msgs) or "Resource limit" in err
    definite = [e for e in res["error_list"] if re.search(r"postcondition not satisfied|assertion failed|invariant not satisfied|precondition not satisfied|overflow|underflow", e["msg"])]
    if rlimit_hit and not definite:
        res["kind"] = "undecided"
        res["reason"] = "rlimit exceeded"
        return res
    if rlimit_hit:
        # a definite failed obligation was reported next to a resource-limit message: keep the definite ones
        res["error_list"] = definite
        res["rlimit_also_hit"] = True
    compile_like = [m for m in msgs if not re.search(
        r"postcondition|assertion failed|invariant|precondition|overflow|underflow|division|decreases|arithmetic|index|bounds|recommend|cast|shift|termination|unreachable", m)]
    if compile_like and len(compile_like) == len(msgs):
        res["kind"] = "undecided"
        res["reason"] = "rust/verus compile error: %s" % compile_like[0]
        return res
    res["kind"] = "fail"
    res["post_failures"] = [e for e in res["error_list"] if "postcondition" in e["msg"]]
    res["aux_failures"] = [e for e in res["error_list"] if "postcondition" not in e["msg"]]
    return res
