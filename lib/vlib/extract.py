"""Route V: mechanical extraction of items from /repo's current source into a Verus unit.

Only the transformations T1..T6 of DESIGN.md 2.1 are implemented; each application is
logged (`Extractor.log`).  A missing anchor raises AnchorLost (=> undecided, never an alarm).
"""
import os
import re

from .overlay import AnchorLost, find_matching_brace, sha, REPO


def ws_regex(s):
    """regex matching `s` up to whitespace differences"""
    parts = [re.escape(p) for p in s.split()]
    return r"\s*".join(parts) if False else r"\s+".join(parts)


def find_unique(text, anchor, what):
    rx = re.compile(ws_regex(anchor))
    ms = list(rx.finditer(text))
    if len(ms) != 1:
        raise AnchorLost("%s: anchor %r found %d times" % (what, anchor, len(ms)))
    return ms[0]


def stmt_end(text, start):
    """index just after the `;` that ends the statement starting at `start` (depth 0)"""
    depth = 0
    i = start
    n = len(text)
    while i < n:
        c = text[i]
        if c in "([{":
            depth += 1
        elif c in ")]}":
            depth -= 1
        elif c == ";" and depth == 0:
            return i + 1
        elif c == "/" and text.startswith("//", i):
            j = text.find("\n", i)
            i = n if j < 0 else j
            continue
        elif c == '"':
            i += 1
            while i < n and text[i] != '"':
                if text[i] == "\\":
                    i += 1
                i += 1
        i += 1
    raise AnchorLost("statement end not found")


class Extractor:
    def __init__(self, repo=REPO):
        self.repo = repo
        self.log = []

    def _src(self, rel):
        p = os.path.join(self.repo, rel)
        if not os.path.exists(p):
            raise AnchorLost("source file %s missing" % rel)
        return open(p).read()

    def _t(self, tid, what, before, after):
        self.log.append({"transform": tid, "what": what, "before_sha": sha(before), "after_sha": sha(after)})

    # -- T1/T2
    def clean_item(self, text, keep_derive=("Clone", "Copy", "PartialEq", "Eq")):
        before = text
        structural = bool(re.search(r"\benum\b", text)) and not re.search(r"\(|\{[^}]*:", text[text.find("enum"):])
        text = re.sub(r"\bpub(\((crate|super|self|in [^)]*)\))?\s+", "", text)               # T1
        text = re.sub(r"^[ \t]*///[^\n]*\n", "", text, flags=re.M)                            # T2 docs
        text = re.sub(r"^[ \t]*#\[(inline|must_use|cfg_attr|doc|allow|deny)[^\]]*\]\s*\n", "", text, flags=re.M)

        def derive(m):
            names = [n.strip() for n in m.group(1).split(",")]
            kept = [n for n in names if n in keep_derive]
            if "PartialEq" in kept and "Eq" in kept and structural:
                kept.append("Structural")   # T7: derived equality of a field-less enum is structural equality
            return "#[derive(%s)]" % ", ".join(kept) if kept else ""
        text = re.sub(r"#\[derive\(([^)]*)\)\]", derive, text)
        if text != before:
            self._t("T1/T2", "visibility/attribute erasure", before, text)
        return text

    def item(self, rel, header_regex, clean=True):
        """whole item `header ... { ... }` (struct/enum/impl/fn) or `header ...;`"""
        src = self._src(rel)
        m = re.search(header_regex, src, re.M)
        if not m:
            raise AnchorLost("item %r not found in %s" % (header_regex, rel))
        # include attributes directly above
        start = m.start()
        while True:
            ls = src.rfind("\n", 0, start - 1) + 1 if start > 0 else 0
            line = src[ls:start]
            if start > 0 and re.match(r"\s*#\[", line):
                start = ls
            else:
                break
        b = src.find("{", m.end() - 1)
        semi = src.find(";", m.end() - 1)
        if semi >= 0 and (b < 0 or semi < b):
            text = src[start:semi + 1]
        else:
            e = find_matching_brace(src, b)
            text = src[start:e + 1]
        self.log.append({"extract": "item", "file": rel, "header": header_regex, "sha": sha(text), "lines": text.count("\n") + 1})
        return self.clean_item(text) if clean else text

    def fn_body(self, rel, header_regex, within=None):
        """text between the braces of the fn whose header matches (optionally after `within` regex)"""
        src = self._src(rel)
        base = 0
        if within:
            w = re.search(within, src, re.M)
            if not w:
                raise AnchorLost("container %r not found in %s" % (within, rel))
            base = w.end()
        m = re.compile(header_regex, re.M).search(src, base)
        if not m:
            raise AnchorLost("fn %r not found in %s" % (header_regex, rel))
        b = src.find("{", m.end() - 1)
        e = find_matching_brace(src, b)
        body = src[b + 1:e]
        self.log.append({"extract": "fn_body", "file": rel, "header": header_regex, "sha": sha(body), "lines": body.count("\n") + 1})
        return body

    # -- T4
    def split_after(self, body, stmt_prefix):
        m = find_unique(body, stmt_prefix, "split-after")
        end = stmt_end(body, m.start())
        prefix, suffix = body[:end], body[end:]
        self._t("T4", "split after statement %r; suffix becomes its own fn" % stmt_prefix, body, suffix)
        self.log.append({"dropped_prefix_sha": sha(prefix), "dropped_prefix_lines": prefix.count("\n") + 1,
                         "note": "prefix is covered by its own Route-K obligation"})
        return prefix, suffix

    # -- T3
    def hoist_items(self, body):
        items = []
        new = body
        while True:
            m = re.search(r"^[ \t]*(?:const|static)\s+[A-Z_0-9]+\s*:", new, flags=re.M)
            if not m:
                break
            end = stmt_end(new, m.start())
            txt = new[m.start():end].strip()
            items.append(re.sub(r"^static\b", "const", txt))
            # also swallow the rest of the line (trailing whitespace/newline)
            nl = new.find("\n", end)
            rest = new[end:nl if nl >= 0 else len(new)]
            cut_to = (nl + 1) if nl >= 0 and rest.strip() == "" else end
            new = new[:m.start()] + new[cut_to:]
        if items:
            self._t("T3", "hoisted %d const/static items to module level (static->const)" % len(items), body, new)
        return "\n".join(items), new

    # -- T5
    def insert_after(self, body, anchor, ghost):
        m = find_unique(body, anchor, "proof-after")
        new = body[:m.end()] + "\n" + ghost + "\n" + body[m.end():]
        self.log.append({"transform": "T5", "what": "ghost block after %r" % anchor, "ghost_sha": sha(ghost)})
        return new

    def annotate_loop(self, body, ordinal, spec):
        ms = list(re.finditer(r"\b(while|loop|for)\b", body))
        # skip keywords inside comments
        ms = [m for m in ms if "//" not in body[body.rfind("\n", 0, m.start()) + 1:m.start()]]
        if ordinal > len(ms):
            raise AnchorLost("loop #%d not found (have %d)" % (ordinal, len(ms)))
        m = ms[ordinal - 1]
        i = m.end()
        depth = 0
        while i < len(body):
            c = body[i]
            if c in "([":
                depth += 1
            elif c in ")]":
                depth -= 1
            elif c == "{" and depth == 0:
                break
            i += 1
        new = body[:i] + "\n" + spec + "\n" + body[i:]
        self.log.append({"transform": "T5", "what": "loop #%d annotated" % ordinal, "ghost_sha": sha(spec)})
        return new

    def n_loops(self, body):
        ms = list(re.finditer(r"\b(while|loop|for)\b", body))
        return len([m for m in ms if "//" not in body[body.rfind("\n", 0, m.start()) + 1:m.start()]])
