"""Route K: build a scratch copy of /repo and *add* verification-only items to it.

Everything this module does to the copied tree is recorded in `Overlay.log` so that the
evidence can show exactly what was added (file, kind, line count, sha256).  The only
deletion ever made is rule O1 (DESIGN.md 2.1): the name `thread_local` is removed from one
explicit `use std::{...}` list so that the cfg(kani) `thread_local!` shim is unambiguous.
"""
import hashlib
import os
import re
import shutil
import subprocess
import tempfile
import time

REPO = os.environ.get("VERIF_REPO", "/repo")
VERIF = os.path.dirname(os.path.dirname(os.path.dirname(os.path.abspath(__file__))))

TLS_SHIM = r'''
#[cfg(kani)]
#[doc(hidden)]
#[allow(missing_docs, missing_debug_implementations, unreachable_pub, dead_code)]
pub mod __verif_tls {
    // `tag` points at a string unique to the static, so that its initial bytes equal no constant's (Kani 0.68 would
    // otherwise compile an equal-bytes constant as a read of this -- mutable -- static; see lib/vlib/aliascheck.py)
    pub struct Key<T> { pub tag: &'static str, pub val: T }
    unsafe impl<T> Sync for Key<T> {}
    impl<T> Key<T> {
        pub fn with<R>(&'static self, f: impl FnOnce(&T) -> R) -> R { f(&self.val) }
        pub fn try_with<R>(&'static self, f: impl FnOnce(&T) -> R) -> Result<R, ()> { Ok(f(&self.val)) }
    }
}
#[cfg(kani)]
#[allow(unused_macros)]
macro_rules! thread_local {
    ($(#[$a:meta])* $v:vis static $N:ident : $T:ty = const $init:block $(;)?) => {
        $(#[$a])* $v static $N: $crate::__verif_tls::Key<$T> = $crate::__verif_tls::Key { tag: concat!("verif-tls:", module_path!(), "::", stringify!($N)), val: $init };
    };
    ($(#[$a:meta])* $v:vis static $N:ident : $T:ty = $init:expr $(;)?) => {
        $(#[$a])* $v static $N: $crate::__verif_tls::Key<$T> = $crate::__verif_tls::Key { tag: concat!("verif-tls:", module_path!(), "::", stringify!($N)), val: $init };
    };
}
'''


class AnchorLost(Exception):
    """An insertion point / item named by a plan is not in the current source: undecided."""


def sha(s):
    if isinstance(s, str):
        s = s.encode()
    return hashlib.sha256(s).hexdigest()[:16]


def find_matching_brace(text, open_idx):
    """text[open_idx] == '{' ; returns index of the matching '}' skipping strings/comments/chars."""
    assert text[open_idx] == "{"
    depth = 0
    i = open_idx
    n = len(text)
    while i < n:
        c = text[i]
        if c == "/" and text.startswith("//", i):
            j = text.find("\n", i)
            i = n if j < 0 else j
            continue
        if c == "/" and text.startswith("/*", i):
            d = 1
            i += 2
            while i < n and d:
                if text.startswith("/*", i):
                    d += 1
                    i += 2
                elif text.startswith("*/", i):
                    d -= 1
                    i += 2
                else:
                    i += 1
            continue
        if c == '"':
            # raw string?  r"..."  r#"..."#  br#"..."#
            k = i - 1
            hashes = 0
            while k >= 0 and text[k] == "#":
                hashes += 1
                k -= 1
            is_raw = k >= 0 and text[k] == "r" and (k == 0 or not (text[k - 1].isalnum() or text[k - 1] == "_") or text[k - 1] == "b")
            if is_raw:
                term = '"' + "#" * hashes
                j = text.find(term, i + 1)
                i = n if j < 0 else j + len(term)
                continue
            i += 1
            while i < n and text[i] != '"':
                if text[i] == "\\":
                    i += 1
                i += 1
            i += 1
            continue
        if c == "'":
            # char literal or lifetime
            m = re.match(r"'(\\.[^']*|[^\\'])'", text[i:i + 12])
            if m:
                i += m.end()
                continue
            i += 1
            continue
        if c == "{":
            depth += 1
        elif c == "}":
            depth -= 1
            if depth == 0:
                return i
        i += 1
    raise AnchorLost("unbalanced braces")


class Overlay:
    def __init__(self, tag, salt=0):
        # The overlay lives at a FIXED path per (property, salt): cargo derives the crate hash from the path, Kani orders
        # code generation by item fingerprints that include the crate hash, and the constant/static aliasing defect of
        # Kani 0.68 (aliascheck.py) depends on that order.  A fixed path makes a run reproducible; `salt` selects another
        # order when the alias scan finds a hazardous aliasing.  A lock file serialises concurrent runs of one property.
        import fcntl
        self.tag = tag
        scratch = os.environ.get("VERIF_SCRATCH", "/tmp")
        os.makedirs(scratch, exist_ok=True)
        self.root = os.path.join(scratch, "verif-ov-%s-s%d" % (tag, salt))
        self._lockf = open(self.root + ".lock", "w")
        try:
            fcntl.flock(self._lockf, fcntl.LOCK_EX | fcntl.LOCK_NB)
        except OSError:
            t0 = time.time()
            while True:
                try:
                    fcntl.flock(self._lockf, fcntl.LOCK_EX | fcntl.LOCK_NB)
                    break
                except OSError:
                    if time.time() - t0 > 7200:
                        self._lockf.close()
                        self._lockf = None
                        self.root = tempfile.mkdtemp(prefix="verif-ov-%s-" % tag, dir=scratch)
                        break
                    time.sleep(5)
        if self._lockf is not None:
            shutil.rmtree(self.root, ignore_errors=True)
            os.makedirs(self.root)
        self.ws = os.path.join(self.root, "ws")
        self.log = []
        subprocess.run(
            ["rsync", "-a", "--exclude", "/target", "--exclude", ".git", REPO.rstrip("/") + "/", self.ws + "/"],
            check=True,
        )
        lock = os.path.join(self.ws, "Cargo.lock")
        if not os.path.exists(lock):
            raise AnchorLost("no Cargo.lock in repo")
        os.makedirs(os.path.join(self.ws, ".cargo"), exist_ok=True)
        with open(os.path.join(self.ws, ".cargo", "config.toml"), "a") as f:
            f.write("\n[net]\noffline = true\n")

    def cleanup(self):
        shutil.rmtree(self.root, ignore_errors=True)
        self.unlock()

    def unlock(self):
        if getattr(self, "_lockf", None) is not None:
            self._lockf.close()   # the (empty) lock file stays: unlinking it would let two holders coexist
            self._lockf = None

    # ---- helpers
    def path(self, rel):
        return os.path.join(self.ws, rel)

    def read(self, rel):
        with open(self.path(rel)) as f:
            return f.read()

    def write(self, rel, text):
        with open(self.path(rel), "w") as f:
            f.write(text)

    def _note(self, kind, rel, added):
        self.log.append({"kind": kind, "file": rel, "lines": added.count("\n") + 1, "sha256": sha(added)})

    # ---- additions
    def add_tls_shim(self, crate):
        rel = os.path.join(crate, "src/lib.rs")
        text = self.read(rel)
        # insert after the last crate-level `#![...]` attribute (attributes may span lines)
        pos = 0
        for m in re.finditer(r"^#!\[", text, re.M):
            # find the end of this attribute by bracket matching
            i = m.start() + 2
            depth = 0
            while i < len(text):
                if text[i] == "[":
                    depth += 1
                elif text[i] == "]":
                    depth -= 1
                    if depth == 0:
                        break
                elif text[i] == '"':
                    i += 1
                    while text[i] != '"':
                        if text[i] == "\\":
                            i += 1
                        i += 1
                i += 1
            pos = max(pos, i + 1)
        text = text[:pos] + "\n" + TLS_SHIM + "\n" + text[pos:]
        self.write(rel, text)
        self._note("tls_shim", rel, TLS_SHIM)
        # rule O1
        if crate == "tracing-subscriber":
            rel2 = "tracing-subscriber/src/filter/subscriber_filters/mod.rs"
            t2 = self.read(rel2)
            removed = False
            for um in re.finditer(r"^use std::\{", t2, re.M):
                close = find_matching_brace(t2, um.end() - 1)
                blk = t2[um.end():close]
                tm = re.search(r"(?<![A-Za-z0-9_:])thread_local\s*,\s*", blk)
                if tm:
                    s0, e0 = um.end() + tm.start(), um.end() + tm.end()
                    self.log.append({"kind": "O1_removed_import_token", "file": rel2, "token": t2[s0:e0].strip(), "sha256": sha(t2[s0:e0])})
                    t2 = t2[:s0] + t2[e0:]
                    self.write(rel2, t2)
                    removed = True
                    break
            if not removed and re.search(r"use std::[^;]*\bthread_local\b", t2):
                raise AnchorLost("explicit thread_local import present but rule O1 could not remove it")

    def add_once_cell_stub(self):
        rel = "Cargo.toml"
        stub = os.path.join(VERIF, "stubs", "once_cell")
        # version must equal the locked one
        lock = self.read("Cargo.lock")
        m = re.search(r'name = "once_cell"\nversion = "([^"]+)"', lock)
        if not m:
            raise AnchorLost("once_cell not in Cargo.lock")
        dst = os.path.join(self.root, "once_cell_stub")
        shutil.copytree(stub, dst)
        ct = open(os.path.join(dst, "Cargo.toml")).read()
        ct = re.sub(r'version = "[^"]+"', 'version = "%s"' % m.group(1), ct, count=1)
        open(os.path.join(dst, "Cargo.toml"), "w").write(ct)
        add = '\n[patch.crates-io]\nonce_cell = { path = "%s" }\n' % dst
        self.write(rel, self.read(rel) + add)
        self._note("once_cell_contract_stub", rel, add)

    def attach_lib_module(self, crate, modname, src_text, libfile="src/lib.rs"):
        """`#[cfg(kani)] mod <modname>;` appended to lib.rs + the module file beside it."""
        rel = os.path.join(crate, libfile)
        decl = "\n#[cfg(kani)]\n#[allow(warnings, missing_docs, clippy::all)]\nmod %s;\n" % modname
        self.write(rel, self.read(rel) + decl)
        modrel = os.path.join(crate, os.path.dirname(libfile), modname + ".rs")
        self.write(modrel, src_text)
        self._note("harness_module", modrel, src_text)

    def attach_inline_module(self, relfile, modname, src_text, inside_mod=None):
        """Append `#[cfg(kani)] mod <modname> { use super::*; ... }` at the end of a file module,
        or just before the closing brace of the inline module `mod <inside_mod> {`."""
        text = self.read(relfile)
        block = "\n#[cfg(kani)]\n#[allow(warnings, missing_docs, clippy::all)]\nmod %s {\n    use super::*;\n%s\n}\n" % (modname, src_text)
        if inside_mod is None:
            text = text + block
        else:
            m = re.search(r"^\s*(pub(\([^)]*\))?\s+)?mod\s+%s\s*\{" % re.escape(inside_mod), text, re.M)
            if not m:
                raise AnchorLost("inline module %s not found in %s" % (inside_mod, relfile))
            close = find_matching_brace(text, m.end() - 1)
            text = text[:close] + block + text[close:]
        self.write(relfile, text)
        self._note("harness_module_inline", relfile, block)

    def inject_attr(self, relfile, fn_regex, attr_text):
        """Place attribute lines immediately above the first line matching fn_regex
        (above its existing attributes / doc comments is not required: directly above `fn`)."""
        text = self.read(relfile)
        m = re.search(fn_regex, text, re.M)
        if not m:
            raise AnchorLost("fn anchor %r not found in %s" % (fn_regex, relfile))
        ls = text.rfind("\n", 0, m.start()) + 1
        indent = re.match(r"\s*", text[ls:]).group(0)
        ins = "".join(indent + l + "\n" for l in attr_text.strip().splitlines())
        text = text[:ls] + ins + text[ls:]
        self.write(relfile, text)
        self._note("contract_attr", relfile, ins)

    def append_text(self, relfile, text_add, kind="appended"):
        self.write(relfile, self.read(relfile) + text_add)
        self._note(kind, relfile, text_add)

    def add_feature_gates(self, crate, gates, libfile="src/lib.rs"):
        rel = os.path.join(crate, libfile)
        add = "".join("#![cfg_attr(kani, feature(%s))]\n" % g for g in gates)
        self.write(rel, add + self.read(rel))
        self._note("feature_gate", rel, add)
