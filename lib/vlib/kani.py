"""Run Kani on an overlay crate and turn its JSON export into per-harness results."""
import json
import os
import re
import subprocess
import threading
import time

KANI_ENV = dict(os.environ, CARGO_NET_OFFLINE="true", CARGO_TERM_COLOR="never")
# the build must land in <overlay>/ws/target (the alias scan reads the goto binaries there, and an inherited target
# directory would make the crate hash - hence the code-generation order - depend on the caller's environment)
for _k in ("CARGO_TARGET_DIR", "CARGO_BUILD_TARGET_DIR", "RUSTFLAGS", "CARGO_ENCODED_RUSTFLAGS", "RUSTC_WRAPPER"):
    KANI_ENV.pop(_k, None)

HARNESS_RE = re.compile(
    r"((?:^[ \t]*//[^\n]*\n)*)"                       # leading tag comments
    r"((?:^[ \t]*#\[[^\n]*\]\s*\n)*?)"                 # other attributes
    r"^[ \t]*#\[kani::(proof(?:_for_contract\([^)]*\))?)\]\s*\n"
    r"((?:^[ \t]*#\[[^\n]*\]\s*\n)*)"
    r"^[ \t]*(?:pub(?:\([a-z]+\))?\s+)?fn\s+([A-Za-z0-9_]+)\s*\(",
    re.M,
)


def scan_harnesses(src):
    """Return [{name, tier, bound, kind, note}] for every #[kani::proof*] fn in `src`.
    Tags are `// TIER: thorough`, `// BOUND: <text>`, `// NOTE: <text>` comment lines right above."""
    out = []
    for m in HARNESS_RE.finditer(src):
        tags = m.group(1) or ""
        name = m.group(5)
        tier = "thorough" if re.search(r"//\s*TIER:\s*thorough", tags) else "quick"
        b = re.search(r"//\s*BOUND:\s*(.+)", tags)
        nt = re.search(r"//\s*NOTE:\s*(.+)", tags)
        out.append({
            "name": name,
            "tier": tier,
            "bound": b.group(1).strip() if b else None,
            "note": nt.group(1).strip() if nt else None,
            "kind": m.group(3),
        })
    return out


def run_kani(ws, crate, harnesses, jobs=16, timeout_s=900, extra_flags=(), features=None,
             no_default_features=False, wall_timeout=None, logdir=None, tag="run", default_unwind=None):
    """harnesses: fully qualified names (module::fn). Returns (results dict, raw_log, cmd, wall)."""
    crate_dir = os.path.join(ws, crate)
    out_json = os.path.join(os.path.dirname(ws), "kani-%s-%s.json" % (crate.replace("/", "_"), tag))
    if os.path.exists(out_json):
        os.remove(out_json)
    cmd = ["cargo", "kani", "-Z", "function-contracts", "-Z", "stubbing", "-Z", "unstable-options",
           "-j", str(jobs), "--output-format", "terse", "--export-json", out_json,
           "--harness-timeout", "%ds" % timeout_s, "--exact"]
    if default_unwind:
        cmd += ["--default-unwind", str(default_unwind)]
    if features:
        cmd += ["--features", ",".join(features)]
    if no_default_features:
        cmd += ["--no-default-features"]
    cmd += list(extra_flags)
    for h in harnesses:
        cmd += ["--harness", h]
    t0 = time.time()
    killed = []
    stop = threading.Event()

    def watchdog():
        # memory cap per CBMC process (DESIGN.md 2.4): a solver above the cap is killed -> that harness is undecided
        cap_kb = int(os.environ.get("VERIF_RSS_CAP_GB", "24")) * 1024 * 1024
        while not stop.wait(5):
            try:
                out = subprocess.run(["ps", "-eo", "pid,rss,args"], stdout=subprocess.PIPE, text=True).stdout
            except Exception:
                continue
            for line in out.splitlines()[1:]:
                parts = line.split(None, 2)
                if len(parts) < 3:
                    continue
                pid, rss, args = parts
                if args.startswith("cbmc ") and ws in args and int(rss) > cap_kb:
                    try:
                        os.kill(int(pid), 9)
                        killed.append("%s (%d GB)" % (pid, int(rss) // (1024 * 1024)))
                    except Exception:
                        pass
    th = threading.Thread(target=watchdog, daemon=True)
    th.start()
    try:
        p = subprocess.run(cmd, cwd=crate_dir, env=KANI_ENV, stdout=subprocess.PIPE, stderr=subprocess.STDOUT,
                           text=True, timeout=wall_timeout)
        log = p.stdout
        rc = p.returncode
    except subprocess.TimeoutExpired as e:
        log = (e.stdout or b"").decode() if isinstance(e.stdout, bytes) else (e.stdout or "")
        log += "\n[driver] wall timeout\n"
        rc = -9
        subprocess.run(["pkill", "-x", "cbmc"])
    finally:
        stop.set()
    if killed:
        log += "\n[driver] memory cap: killed cbmc %s\n" % ", ".join(killed)
    wall = time.time() - t0
    if logdir:
        os.makedirs(logdir, exist_ok=True)
        with open(os.path.join(logdir, "kani-%s-%s.log" % (crate.replace("/", "_"), tag)), "w") as f:
            f.write(" ".join(cmd) + "\n" + log)
    results = {}
    data = None
    if os.path.exists(out_json):
        try:
            data = json.load(open(out_json))
        except Exception:
            data = None
    compile_error = bool(re.search(r"^error(\[E\d+\])?:", log, re.M)) and data is None
    if data:
        stats = {c["harness_id"]: (c.get("cbmc_stats") or {}) for c in (data.get("cbmc") or [])}
        for r in data.get("verification_results", {}).get("results", []):
            hid = r["harness_id"]
            checks = r.get("checks", [])
            failed = [c for c in checks if c.get("status") in ("Failure", "Failed", "FAILURE")]
            undet = [c for c in checks if c.get("status") in ("Undetermined", "UNDETERMINED")]
            covers = [c for c in checks if c.get("category") == "cover" or c.get("property_class") == "cover"]
            unsat_covers = [c for c in covers if c.get("status") not in ("Satisfied", "SATISFIED", "Success")]
            results[hid] = {
                "status": r.get("status"), "reason": ("memory cap exceeded (solver killed)" if (killed and not checks) else None),
                "duration_s": r.get("duration_ms", 0) / 1000.0,
                "n_checks": len(checks),
                "failed": [{"description": c.get("description"), "category": c.get("category"),
                            "function": c.get("function"),
                            "location": "%s:%s" % (c.get("location", {}).get("file"), c.get("location", {}).get("line"))}
                           for c in failed],
                "undetermined": len(undet),
                "covers": len(covers),
                "covers_unsat": [c.get("description") for c in unsat_covers],
                "solver_s": (stats.get(hid) or {}).get("runtime_decision_procedure_s"),
                "symex_s": (stats.get(hid) or {}).get("runtime_symex_s"),
            }
    # harnesses that were requested but have no result (timeout / crash / not found)
    for h in harnesses:
        if h not in results:
            why = "no result"
            if compile_error:
                why = "compile error in overlay"
            elif re.search(r"no harnesses matched|No proof harnesses", log):
                why = "harness not found"
            elif "memory cap: killed" in log:
                why = "memory cap exceeded (solver killed)"
            elif "timed out" in log or rc == -9:
                why = "timeout"
            results[h] = {"status": "NoResult", "reason": why, "failed": [], "n_checks": 0,
                          "undetermined": 0, "covers": 0, "covers_unsat": [], "duration_s": None, "solver_s": None}
    # Kani 0.68 constant/static aliasing defect (lib/vlib/aliascheck.py): inspect every compiled harness
    try:
        attach_alias_hits(ws, results)
    except Exception as e:  # the scan must never turn a result into an alarm
        for r in results.values():
            r.setdefault("alias_scan_error", str(e)[:200])
    return results, log, " ".join(cmd), wall


def find_goto_binary(ws, harness_fq):
    fn = harness_fq.split("::")[-1]
    suffix = "%d%s.out" % (len(fn), fn)
    best = None
    for root, _dirs, files in os.walk(os.path.join(ws, "target", "kani")):
        if not root.endswith(os.sep + "out"):
            continue
        for f in files:
            if f.endswith(suffix) and not f.endswith(".symtab.out"):
                p = os.path.join(root, f)
                if best is None or os.path.getmtime(p) > os.path.getmtime(best):
                    best = p
    return best


def attach_alias_hits(ws, results):
    from concurrent.futures import ThreadPoolExecutor
    from . import aliascheck
    todo = []
    for h, r in results.items():
        if r.get("status") == "NoResult" and r.get("reason") in ("compile error in overlay", "harness not found"):
            continue
        p = find_goto_binary(ws, h)
        if p is None:
            r["alias_scan_error"] = "goto binary not found"
            continue
        todo.append((h, p))
    def one(hp):
        try:
            return hp[0], aliascheck.scan(hp[1]), None
        except Exception as e:
            return hp[0], None, str(e)[:200]
    with ThreadPoolExecutor(max_workers=8) as ex:
        for h, hits, err in ex.map(one, todo):
            if err:
                results[h]["alias_scan_error"] = err
            else:
                results[h]["aliases"] = hits


def classify(res, unmodelled=()):
    """-> 'pass' | 'fail' | 'undecided' (+ reason).  `unmodelled`: path fragments of dependencies that a plan replaces by
    contract stubs and a dummy object (e.g. a zeroed crossbeam Sender): a failed check located INSIDE such a dependency
    means the code reached an operation of it that has no stub - the harness cannot decide that, it is not a verdict."""
    st = res.get("status")
    if st not in ("Success", "SUCCESS", "Successful") and not res.get("n_checks"):
        return "undecided", "no check results (CBMC timeout / memory cap / crash): " + str(res.get("reason", st))
    if st == "NoResult":
        return "undecided", res.get("reason", "no result")
    fails = res.get("failed", [])
    real = [f for f in fails if f.get("category") != "unwind" and "unwinding assertion" not in (f.get("description") or "")
            and f.get("category") != "unsupported_construct"]
    if st in ("Success", "SUCCESS", "Successful") and not fails:
        if res.get("covers_unsat"):
            return "undecided", "vacuity: cover unsatisfied: %s" % res["covers_unsat"][:3]
        if res.get("undetermined"):
            return "undecided", "undetermined checks"
        return "pass", ""
    if real and unmodelled:
        inside = [f for f in real if any(u in (f.get("location") or "") for u in unmodelled)]
        if inside and len(inside) == len(real):
            return "undecided", "the code reached an operation of a dependency that this plan replaces by contract stubs and for which no stub exists (%s): %s" % (
                ", ".join(unmodelled), "; ".join(sorted(set((f.get("function") or "?") for f in inside)))[:300])
    if real:
        return "fail", "; ".join(sorted(set((f.get("description") or "?") for f in real)))[:600]
    if fails:
        return "undecided", "only unwinding/unsupported-construct failures: " + "; ".join(sorted(set((f.get("description") or "?")[:80] for f in fails)))[:400]
    return "undecided", "status %s" % st


def playback_values(ws, crate, harness, extra_flags=(), features=None, timeout_s=900, default_unwind=None):
    """Re-run one failing harness with concrete playback; returns (values_text or None, test_fn_src or None, log)."""
    cmd = ["cargo", "kani", "-Z", "function-contracts", "-Z", "stubbing", "-Z", "unstable-options", "-Z", "concrete-playback",
           "--concrete-playback=print", "--output-format", "terse", "--exact", "--harness", harness,
           "--harness-timeout", "%ds" % timeout_s]
    if default_unwind:
        cmd += ["--default-unwind", str(default_unwind)]
    if features:
        cmd += ["--features", ",".join(features)]
    cmd += list(extra_flags)
    p = subprocess.run(cmd, cwd=os.path.join(ws, crate), env=KANI_ENV, stdout=subprocess.PIPE, stderr=subprocess.STDOUT, text=True)
    log = p.stdout
    m = re.search(r"```\n(.*?)```", log, re.S)
    if not m:
        return None, None, log
    test_src = m.group(1)
    vm = re.search(r"let concrete_vals: Vec<Vec<u8>> = vec!\[(.*?)\n\s*\];", test_src, re.S)
    vals = vm.group(1).strip() if vm else ""
    return vals, test_src, log


def native_replay(ws, crate, modfile_rel, test_src, features=None):
    """Append the generated #[test] to the harness module and run it natively with `cargo kani playback`.
    Returns (confirmed: bool|None, log). confirmed=True iff the native run panics (the failing check reproduces)."""
    name = re.search(r"fn (kani_concrete_playback_[A-Za-z0-9_]+)\(", test_src)
    if not name:
        return None, "no test name"
    path = os.path.join(ws, modfile_rel)
    with open(path, "a") as f:
        f.write("\n" + test_src + "\n")
    cmd = ["cargo", "kani", "playback", "-Z", "concrete-playback", "-Z", "function-contracts", "-Z", "stubbing", "--lib"]
    if features:
        cmd += ["--features", ",".join(features)]
    cmd += ["--", name.group(1)]
    try:
        p = subprocess.run(cmd, cwd=os.path.join(ws, crate), env=KANI_ENV, stdout=subprocess.PIPE, stderr=subprocess.STDOUT,
                           text=True, timeout=1200)
    except subprocess.TimeoutExpired:
        return None, "native replay timed out"
    log = p.stdout
    if re.search(r"test result: FAILED\. 0 passed; 1 failed", log):
        return True, log
    if re.search(r"test result: ok\. 1 passed", log):
        return False, log
    return None, log
