"""Detector for a Kani 0.68 code-generation defect that silently changes program meaning.

kani-compiler keeps ONE map  Allocation(bytes, provenance, align) -> global symbol  for constant allocations AND for the
initialisers of statics.  An ADT-typed constant (e.g. `LevelFilter::TRACE`, eight zero bytes) therefore gets compiled as a
read of whatever `static` happens to have the same initial bytes (e.g. `static SCOPED_COUNT: AtomicUsize = 0`); once the
program writes that static, the "constant" changes value.  Which static wins depends on the hash-ordered codegen order,
which changes with the (path-derived) crate hash, so the same harness passes in one build and fails in the next.

The defect is visible in the goto program: a constant read is emitted as
    *(cast(cast(address_of(SYM), unsignedbv[8]*)[ + k], struct tag-T*))          (value read)
or  byte_extract_little_endian(cast(cast(address_of(SYM), unsignedbv[8]*) + k, struct tag-T*), ...)   (pointer into it)
where SYM should be a compiler-made `...::global::N::` / `AllocId(..)` symbol.  When SYM is a named Rust static and T is
not that static's own type, a constant has been aliased to the static.  This module reports those.
"""
import re
import subprocess

PAT = re.compile(r"cast\(cast\(address_of\(([^()]+?(?:\([^()]*\))?[^()]*?)\), unsignedbv\[8\]\*\)(?: \+ (\d+))?, struct (tag-[^*() ]+)\*\)")
SYM_RE = re.compile(r"^Symbol\.+: (.+)$")


def _run(args, timeout=300):
    p = subprocess.run(args, stdout=subprocess.PIPE, stderr=subprocess.DEVNULL, text=True, timeout=timeout)
    return p.stdout


def scan(goto_path):
    """returns list of dicts {static, pretty, static_type, read_as, offset, n, deref} for every aliased constant"""
    symtxt = _run(["goto-instrument", "--show-symbol-table", goto_path])
    statics = {}
    cur = None
    for line in symtxt.splitlines():
        m = SYM_RE.match(line)
        if m:
            cur = {"sym": m.group(1), "pretty": "", "type": "", "flags": "", "value": ""}
            continue
        if cur is None:
            continue
        if line.startswith("Pretty name.:"):
            cur["pretty"] = line.split(":", 1)[1].strip()
        elif line.startswith("Type........:"):
            cur["type"] = line.split(":", 1)[1].strip()
        elif line.startswith("Value.......:"):
            cur["value"] = line.split(":", 1)[1].strip()
        elif line.startswith("Flags.......:"):
            cur["flags"] = line.split(":", 1)[1].strip()
            if "static_lifetime" in cur["flags"] and "::global::" not in cur["sym"] and "AllocId(" not in cur["sym"] \
                    and not cur["sym"].startswith("__CPROVER") and cur["type"].startswith(("struct ", "const struct ")):
                statics[cur["sym"]] = cur
            cur = None
    fns = _run(["goto-instrument", "--show-goto-functions", goto_path])
    hits = {}
    for m in PAT.finditer(fns):
        sym, off, tag = m.group(1), int(m.group(2) or 0), m.group(3)
        st = statics.get(sym)
        if st is None:
            continue
        own = st["type"].replace("const ", "").replace("struct ", "").strip()
        if own == tag.replace("tag-", "", 1) and off == 0:
            continue
        deref = fns[max(0, m.start() - 2):m.start()] == "*("
        # a pointer into a named static at a non-zero offset with a foreign type is how Kani addresses a FIELD of a
        # struct static through a relocation; only offset-0 foreign-type accesses and foreign-type value reads are aliases
        if off != 0 and not deref:
            continue
        # a zero-sized static has no bytes: every zero-sized constant "aliases" it and nothing can be written to it
        inner = st["value"][:st["value"].rfind("}") + 1]
        if not re.search(r"\d|address_of", re.sub(r"\.\d+=", "", inner)):
            continue
        k = (sym, tag, off, deref)
        if k not in hits:
            hits[k] = {"static": sym, "pretty": st["pretty"] or sym, "static_type": own, "read_as": tag, "offset": off,
                       "deref": deref, "n": 0, "init": st["value"][:120]}
        hits[k]["n"] += 1
    # Can the program WRITE an aliased static?  A non-`mut` static is written only through a reference to it.  Every place
    # where the program takes the static's own address is inspected: `V := &S` followed only by `Atomic::load(V, _)` calls
    # is a read; anything else (store, fetch_*, swap, compare_exchange, passing &S on, ...) counts as a possible write.
    # No own reference at all, or only reads => the alias is harmless: S is just another immutable copy of those bytes.
    if hits:
        bodies = []  # (start, end, header)
        heads = [(m.start(), m.group(1)) for m in re.finditer(r"^(\S.*?) /\* (\S+) \*/$", fns, re.M)]
        for k, (s, n) in enumerate(heads):
            bodies.append((s, heads[k + 1][0] if k + 1 < len(heads) else len(fns), n))
        def body_at(pos):
            for s, e, n in bodies:
                if s <= pos < e:
                    return s, e, n
            return 0, len(fns), "?"
        for hrec in hits.values():
            sym = hrec["static"]
            readers, writers = set(), set()
            for m in re.finditer(re.escape("address_of(" + sym + ")"), fns):
                mm = PAT.search(fns, max(0, m.start() - 10), m.end() + 200)
                if mm and mm.start() == m.start() - 10 and mm.group(1) == sym:
                    tag, off = mm.group(3), int(mm.group(2) or 0)
                    if tag.replace("tag-", "", 1) != hrec["static_type"] and (off == 0 or fns[max(0, mm.start() - 2):mm.start()] == "*("):
                        continue  # this occurrence is an alias read of the constant
                bs, be, bn = body_at(m.start())
                if bn.startswith("__CPROVER_initialize") or "__CPROVER__start" in bn:
                    continue      # the static's own initialisation
                ls = fns.rfind("\n", 0, m.start()) + 1
                le = fns.find("\n", m.start())
                line = fns[ls:le].strip()
                am = re.match(r"ASSIGN (\S+) := byte_extract_little_endian\(cast\(cast\(address_of\(" + re.escape(sym) + r"\), unsignedbv\[8\]\*\) \+ 0, struct [^)]*\*\), 0, struct [^)]*\*\)$", line)
                if not am:
                    writers.add(bn)
                    continue
                v = am.group(1)
                ok = True
                for um in re.finditer(re.escape(v) + r"(?![A-Za-z0-9_$:])", fns[bs:be]):
                    us = fns.rfind("\n", 0, bs + um.start()) + 1
                    ue = fns.find("\n", bs + um.start())
                    ul = fns[us:ue].strip()
                    if us == ls or ul.startswith(("DECL " + v, "DEAD " + v)):
                        continue
                    cm = re.match(r"CALL \S+ := (\S+?)\(" + re.escape(v) + r", [^()]*\)$", ul)
                    if cm and re.search(r"4core4sync6atomic.*E4load", cm.group(1)):
                        continue
                    ok = False
                    break
                (readers if ok else writers).add(bn)
            hrec["readers"] = sorted(readers)[:8]
            hrec["possible_writers"] = sorted(writers)[:8]
            hrec["harmless"] = not writers
    return list(hits.values())


if __name__ == "__main__":
    import sys, json
    for p in sys.argv[1:]:
        print(p)
        for h in scan(p):
            print("  ", json.dumps(h))
